/-
  M-cli: dialer.go — Dialer.Upgrade (request writer, response parser), matchSelectedExtensions,
  hostport. The nonce drawn by initNonce and net/url's RequestURI()/Host are inputs of the model.
-/
import WsVerif.Model.Upgrader
namespace Ws
open Ws.Lex

structure DialCfg where
  readBuf : Nat := 0
  protocols : List Bytes := []
  extensions : List Opt := []
  header : Bytes := []            -- Dialer.Header bytes
  host : Bytes := []              -- Dialer.Host override
  onHeaderKey : Bytes := []       -- OnHeader rejects this canonical key
  onHeaderRej : Bool := false
  deriving Repr

/-- http.go:httpWriteUpgradeRequest. -/
def writeUpgradeRequest (cfg : DialCfg) (requestURI urlHost nonce : Bytes) : Bytes :=
  strBytes "GET " ++ requestURI ++ strBytes " HTTP/1.1\r\n"
    ++ strBytes "Host: " ++ (if cfg.host.isEmpty then urlHost else cfg.host) ++ crlf
    ++ strBytes "Upgrade: websocket\r\nConnection: Upgrade\r\nSec-WebSocket-Version: 13\r\n"
    ++ strBytes "Sec-WebSocket-Key: " ++ nonce ++ crlf
    ++ (if cfg.protocols.isEmpty then []
        else strBytes "Sec-WebSocket-Protocol: " ++ (cfg.protocols.intersperse (strBytes ", ")).flatten ++ crlf)
    ++ (if cfg.extensions.isEmpty then []
        else strBytes "Sec-WebSocket-Extensions: " ++ writeOptions cfg.extensions ++ crlf)
    ++ cfg.header ++ crlf

inductive DialErr where
  | io (f : Fin)
  | malformedResponse
  | badProtocol
  | status (code : Nat)
  | badUpgrade | badConnection | badSecAccept | badSubProtocol | badExtensions
  | onHeader
  deriving DecidableEq, Repr

/-- dialer.go:matchSelectedExtensions. -/
def matchSelectedExtensions (selected : Bytes) (wanted received : List Opt) : List Opt × Option DialErr :=
  if selected.isEmpty then (received, none) else
  let (calls, ok) := scanOptionsCalls selected
  let opts := groupOptions calls
  let rec go (os : List Opt) (received : List Opt) : List Opt × Bool :=
    match os with
    | [] => (received, true)
    | o :: rest =>
      match wanted.find? (fun w => w.name == o.name) with
      | some w => go rest (received ++ [{ w with params := o.params }])
      | none => (received, false)
  let (rcv, allMatch) := go opts received
  if !allMatch then (rcv, some .badExtensions)
  else if !ok then (rcv, some .malformedResponse)
  else if opts.isEmpty then (rcv, some .badExtensions)
  else (rcv, none)

def dSeenUpgrade : Nat := 1
def dSeenConnection : Nat := 2
def dSeenSecAccept : Nat := 4

/-- One response header line: new handshake data, headerSeen word, error. -/
def dlHeader (cfg : DialCfg) (nonce : Bytes) (hs : Handshake) (seen : Nat) (k v : Bytes) :
    Handshake × Nat × Option DialErr :=
  if k = strBytes "Upgrade" then
    (hs, seen ||| dSeenUpgrade, if equalFold v (strBytes "websocket") then none else some .badUpgrade)
  else if k = strBytes "Connection" then
    (hs, seen ||| dSeenConnection, if equalFold v (strBytes "Upgrade") then none else some .badConnection)
  else if k = strBytes "Sec-Websocket-Accept" then
    (hs, seen ||| dSeenSecAccept, if v.length = 28 ∧ v = Spec.acceptOf nonce then none else some .badSecAccept)
  else if k = strBytes "Sec-Websocket-Protocol" then
    match cfg.protocols.find? (fun w => w == v) with
    | some w => if w.isEmpty then (hs, seen, some .badSubProtocol) else ({ hs with protocol := w }, seen, none)
    | none => (hs, seen, some .badSubProtocol)
  else if k = strBytes "Sec-Websocket-Extensions" then
    ({ hs with extensions := (matchSelectedExtensions v cfg.extensions hs.extensions).1 }, seen,
      (matchSelectedExtensions v cfg.extensions hs.extensions).2)
  else if cfg.onHeaderRej ∧ k = cfg.onHeaderKey then (hs, seen, some .onHeader)
  else (hs, seen, none)

/-- The read/parse loop over response header lines. -/
def dlLoop (cfg : DialCfg) (nonce : Bytes) : Nat → Bufio → Handshake → Nat → Handshake × Option DialErr × Bufio × Nat
  | 0, b, hs, seen => (hs, some .malformedResponse, b, seen)
  | fuel + 1, b, hs, seen =>
    match readLine b with
    | (_, some f, b') => (hs, some (.io f), b', seen)
    | (line, none, b') =>
      if line.isEmpty then (hs, none, b', seen)
      else match httpParseHeaderLine line with
        | none => (hs, some .malformedResponse, b', seen)
        | some (k, v) =>
          match (dlHeader cfg nonce hs seen k v).2.2 with
          | some e => ((dlHeader cfg nonce hs seen k v).1, some e, b', seen)
          | none => dlLoop cfg nonce fuel b' (dlHeader cfg nonce hs seen k v).1 (dlHeader cfg nonce hs seen k v).2.1

/-- The status-line decision: none = go on to the headers. -/
def dlStatusLine (sl : Bytes) : Option DialErr :=
  match httpParseVersion (bsplit3 sl 32).1 with
  | none => some .malformedResponse
  | some (major, minor) =>
    match (if (bsplit3 sl 32).2.1.length = 3 then asciiToInt (bsplit3 sl 32).2.1 else none) with
    | none => some .malformedResponse
    | some st =>
      if major ≠ 1 ∨ minor < 1 then some .badProtocol
      else if st ≠ 101 then some (.status st)
      else none

/-- The decision after the blank line. -/
def dlFinish (seen : Nat) : Option DialErr :=
  if seen ≠ 7 then
    some (if seen &&& dSeenUpgrade = 0 then .badUpgrade
          else if seen &&& dSeenConnection = 0 then .badConnection else .badSecAccept)
  else none

/-- Dialer.Upgrade after the request was flushed: parse the response from the connection.
    Returns the handshake, the error, and the reader state (buffered bytes + rest of the source)
    — what stays readable "through the returned buffer followed by the connection". -/
def dialerUpgrade (cfg : DialCfg) (nonce : Bytes) (src : Src) : Handshake × Option DialErr × Bufio :=
  let b0 : Bufio := { cap := max 16 (if cfg.readBuf = 0 then 4096 else cfg.readBuf), src }
  match readLine b0 with
  | (_, some f, b1) => ({}, some (.io f), b1)
  | (sl, none, b1) =>
    match dlStatusLine sl with
    | some e => ({}, some e, b1)
    | none =>
      match dlLoop cfg nonce (src.bytes.length + 4) b1 {} 0 with
      | (hs, some e, b', _) => (hs, some e, b')
      | (hs, none, b', seen) => (hs, dlFinish seen, b')

/-- dialer.go:hostport. -/
def hostport (host : Bytes) (defaultPort : Bytes) : Bytes × Bytes :=
  let colon := (host.reverse.idxOf? 58).map (fun i => host.length - 1 - i)
  let bracket := host.idxOf? 93
  match colon with
  | some c =>
    if (match bracket with | some b => decide (c > b) | none => true) then (host.take c, host) else (host, host ++ defaultPort)
  | none => (host, host ++ defaultPort)

/-- dialer.go:Dialer.tlsClient — the server name the TLS session is set up for, and the ServerName
    of the configuration the caller (or the library's shared default) holds afterwards. A
    configuration without a name is CLONED before the host name is filled in, so neither the user's
    configuration nor the package-level default ever changes. `cfgName = none`: Dialer.TLSConfig is nil. -/
def tlsServerName (cfgName : Option Bytes) (hostname : Bytes) : Bytes × Bytes :=
  let shared := cfgName.getD []          -- the default config has no name
  if shared.isEmpty then (hostname, shared) else (shared, shared)

end Ws
