/-
  M-pool: N sessions sharing the library's process-global buffer pools (C19).

  What the pools of gobwas/pool and wsutil.writers give a session is a buffer whose CONTENTS ARE
  STALE (whatever the previous user left) and whose identity may be the one another session has
  just returned. A session is a sequential program over four actions — take a buffer, overwrite
  it, read it, give it back — and the data it writes may depend on everything it has read so far.
  The scheduler interleaves the sessions' actions arbitrarily. Core Lean only.

  Mirrors: pbufio.GetReader/PutReader, pbufio.GetWriter/PutWriter (server.go:Upgrader.Upgrade,
  dialer.go:Dialer.Upgrade), pbytes.GetLen/Put (wsutil/cipher.go, wsutil/writer.go,
  wsutil/handler.go), wsutil.GetWriter/PutWriter. The pool itself (a free list; LIFO here, any
  order would do for the theorems) is the modelled dependency.
-/
import WsVerif.Base
namespace Ws.Pools
open Ws

abbrev Buf := Nat

inductive Act where
  /-- Get: pop a buffer from the shared free list, or allocate a fresh one; push it on the session's
      own stack of held buffers. Its contents are whatever its last user left. -/
  | get
  /-- overwrite held buffer `slot` with a function of everything the session has read so far
      (copy(payload, p); bufio.Reader.Reset + fill from the session's own connection) -/
  | fill (slot : Nat) (f : List Bytes → Bytes)
  /-- read held buffer `slot` (what the session observes; every result it reports is a function
      of these observations) -/
  | read (slot : Nat)
  /-- Put: give the most recently taken buffer back (deferred Puts run in reverse order) -/
  | put

structure Sess where
  todo : List Act
  done : List Act := []
  held : List Buf := []
  hist : List Bytes := []

structure World where
  pool : List Buf
  next : Nat                 -- ids ≥ next have never been handed out
  mem : Buf → Bytes
  ss : Nat → Sess

def upd (m : Buf → Bytes) (b : Buf) (v : Bytes) : Buf → Bytes := fun x => if x = b then v else m x

/-- One action of session `i` (nothing happens when it has finished). -/
def World.step (w : World) (i : Nat) : World :=
  let s := w.ss i
  match s.todo with
  | [] => w
  | a :: rest =>
    let s1 : Sess := { s with todo := rest, done := s.done ++ [a] }
    let put (s' : Sess) : Nat → Sess := fun j => if j = i then s' else w.ss j
    match a with
    | .get =>
      match w.pool with
      | b :: p' => { w with pool := p', ss := put { s1 with held := b :: s.held } }
      | [] => { w with next := w.next + 1, ss := put { s1 with held := w.next :: s.held } }
    | .fill k f =>
      match s.held[k]? with
      | some b => { w with mem := upd w.mem b (f s.hist), ss := put s1 }
      | none => { w with ss := put s1 }
    | .read k =>
      match s.held[k]? with
      | some b => { w with ss := put { s1 with hist := s.hist ++ [w.mem b] } }
      | none => { w with ss := put s1 }
    | .put =>
      match s.held with
      | b :: hs => { w with pool := b :: w.pool, ss := put { s1 with held := hs } }
      | [] => { w with ss := put s1 }

/-- Run a schedule: the list of session indices the scheduler picked, in order. -/
def World.run (w : World) : List Nat → World
  | [] => w
  | i :: is => (w.step i).run is

/-! ### what a session computes on its own: no heap, no pool, no other session -/

structure Sym where
  stack : List (Option Bytes) := []   -- per held buffer: what this session wrote into it, if anything yet
  hist : List Bytes := []

def symStep (σ : Sym) : Act → Sym
  | .get => { σ with stack := none :: σ.stack }
  | .fill k f => if k < σ.stack.length then { σ with stack := σ.stack.set k (some (f σ.hist)) } else σ
  | .read k =>
    match σ.stack[k]? with
    | some (some c) => { σ with hist := σ.hist ++ [c] }
    | _ => σ
  | .put => { σ with stack := σ.stack.tail }

def symRun (as : List Act) : Sym := as.foldl symStep {}

/-- The get/put discipline of the library: a buffer is touched only between the session's own Get
    and Put, and is overwritten before it is read. -/
def discFrom (σ : Sym) : List Act → Bool
  | [] => true
  | a :: as =>
    (match a with
     | .get => true
     | .fill k _ => decide (k < σ.stack.length)
     | .read k => match σ.stack[k]? with | some (some _) => true | _ => false
     | .put => !σ.stack.isEmpty)
    && discFrom (symStep σ a) as

def Disc (p : List Act) : Bool := discFrom {} p

/-- every buffer taken is given back -/
def Balanced (p : List Act) : Bool := (symRun p).stack.isEmpty

def World.init (progs : List (List Act)) (pool : List Buf) (next : Nat) (mem : Buf → Bytes) : World :=
  { pool, next, mem, ss := fun i => { todo := progs.getD i [] } }

end Ws.Pools
