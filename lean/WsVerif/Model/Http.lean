/-
  M-http: util.go (readLine over bufio.Reader, bsplit3, btrim, asciiToInt, canonicalizeHeaderKey,
  btsHasToken), http.go (request/response line and header parsers, response writers).
  bufio.Reader is stdlib: modelled as far as readLine depends on it (ReadSlice, fill).
-/
import WsVerif.Model.HttpHead
import WsVerif.Spec.Sha1
namespace Ws

/-- bufio.Reader: unread buffered bytes, buffer size, pending error, underlying source. -/
structure Bufio where
  buf : Bytes := []
  cap : Nat
  err : Option Fin := none
  src : Src
  deriving Repr

/-- bufio.Reader.fill: slide, then one Read into the free space (empty reads retried). -/
def Bufio.fill (b : Bufio) : Bufio :=
  let rec go (fuel : Nat) (b : Bufio) : Bufio :=
    match fuel with
    | 0 => { b with err := some .fail }     -- io.ErrNoProgress
    | fuel + 1 =>
      let (got, e, s') := b.src.read (b.cap - b.buf.length)
      let b' := { b with buf := b.buf ++ got, src := s' }
      match e with
      | some f => { b' with err := some f }
      | none => if got.isEmpty then go fuel b' else b'
  go 100 b

inductive SliceErr where
  | bufferFull
  | io (f : Fin)
  deriving DecidableEq, Repr

/-- bufio.Reader.ReadSlice('\n'). -/
def Bufio.readSlice (b : Bufio) : Nat → Bytes × Option SliceErr × Bufio
  | 0 => ([], some (.io .fail), b)
  | fuel + 1 =>
    match b.buf.idxOf? 10 with
    | some i => (b.buf.take (i + 1), none, { b with buf := b.buf.drop (i + 1) })
    | none =>
      match b.err with
      | some f => (b.buf, some (.io f), { b with buf := [], err := none })
      | none =>
        if b.buf.length ≥ b.cap then (b.buf, some .bufferFull, { b with buf := [] })
        else b.fill.readSlice fuel

def Bufio.fuel (b : Bufio) : Nat := b.src.bytes.length + b.src.chunks.length + 8

/-- util.go:readLine: a line without its '\n' / '\r\n'; on error the bytes read so far. -/
def readLine (b : Bufio) : Bytes × Option Fin × Bufio :=
  let rec go (fuel : Nat) (b : Bufio) (line : Bytes) : Bytes × Option Fin × Bufio :=
    match fuel with
    | 0 => (line, some .fail, b)
    | fuel + 1 =>
      match b.readSlice b.fuel with
      | (bts, some .bufferFull, b') => go fuel b' (line ++ bts)
      | (bts, some (.io f), b') => (line ++ bts, some f, b')
      | (bts, none, b') =>
        let l := line ++ bts
        let n := l.length
        if n > 1 ∧ l.getD (n - 2) 0 = 13 then (l.take (n - 2), none, b') else (l.take (n - 1), none, b')
  go (b.buf.length + b.src.bytes.length + 4) b []

/-- util.go:btrim (SP and HT on both sides). -/
def btrim (bs : Bytes) : Bytes :=
  let isWs (c : Nat) : Bool := c == 32 || c == 9
  ((bs.dropWhile isWs).reverse.dropWhile isWs).reverse

/-- util.go:bsplit3. -/
def bsplit3 (bs : Bytes) (sep : Nat) : Bytes × Bytes × Bytes :=
  match bs.idxOf? sep with
  | none => (bs, [], [])
  | some a =>
    match (bs.drop (a + 1)).idxOf? sep with
    | none => (bs, [], [])
    | some b => (bs.take a, (bs.drop (a + 1)).take b, bs.drop (a + 1 + b + 1))

/-- util.go:asciiToInt: decimal digits only, no overflow (`none` = error). -/
def asciiToInt (bs : Bytes) : Option Nat :=
  if bs.isEmpty then none
  else bs.foldl (fun (acc : Option Nat) c =>
    match acc with
    | none => none
    | some n => if 48 ≤ c ∧ c ≤ 57 then (let n' := n * 10 + (c - 48); if n' > 9223372036854775807 then none else some n') else none) (some 0)

/-- http.go:httpParseVersion. -/
def httpParseVersion (bs : Bytes) : Option (Nat × Nat) :=
  if bs = strBytes "HTTP/1.0" then some (1, 0)
  else if bs = strBytes "HTTP/1.1" then some (1, 1)
  else if bs.length < 8 then none
  else if bs.take 5 ≠ strBytes "HTTP/" then none
  else
    let r := bs.drop 5
    match r.idxOf? 46 with
    | none => none
    | some dot =>
      match asciiToInt (r.take dot), asciiToInt (r.drop (dot + 1)) with
      | some ma, some mi => some (ma, mi)
      | _, _ => none

/-- util.go:canonicalizeHeaderKey. -/
def canonicalizeHeaderKey (k : Bytes) : Bytes :=
  (k.foldl (fun (acc : Bytes × Bool) c =>
    let c' := if acc.2 && 97 ≤ c && c ≤ 122 then c - 32 else if !acc.2 && 65 ≤ c && c ≤ 90 then c + 32 else c
    (acc.1 ++ [c'], c == 45)) ([], true)).1

/-- http.go:httpParseHeaderLine. -/
def httpParseHeaderLine (line : Bytes) : Option (Bytes × Bytes) :=
  match line.idxOf? 58 with
  | none => none
  | some colon => some (canonicalizeHeaderKey (btrim (line.take colon)), btrim (line.drop (colon + 1)))

def lower (c : Nat) : Nat := if 65 ≤ c ∧ c ≤ 90 then c + 32 else c
/-- bytes.EqualFold for ASCII data. -/
def equalFold (a b : Bytes) : Bool := a.map lower == b.map lower

/-- util.go:btsHasToken. -/
def btsHasToken (header token : Bytes) : Bool :=
  let (toks, _) := Lex.scanTokens header (fun v => !equalFold v token)
  match toks.getLast? with
  | some t => equalFold t token
  | none => false

def crlf : Bytes := [13, 10]

def statusText (code : Nat) : Bytes :=
  strBytes (match code with
    | 400 => "Bad Request" | 401 => "Unauthorized" | 403 => "Forbidden" | 404 => "Not Found"
    | 405 => "Method Not Allowed" | 418 => "I'm a teapot" | 426 => "Upgrade Required" | 429 => "Too Many Requests"
    | 500 => "Internal Server Error" | 503 => "Service Unavailable" | 505 => "HTTP Version Not Supported"
    | _ => "")

/-- A handshake error as the response writer sees it: ConnectionRejectedError{code, reason, header}
    or a plain error (code 0 ⇒ 500, no header). -/
structure HsErr where
  name : String
  code : Nat
  reason : Bytes
  header : Bytes := []
  deriving DecidableEq, Repr

def errBadProtocol : HsErr := ⟨"ErrHandshakeBadProtocol", 505, strBytes "handshake error: bad HTTP protocol version", []⟩
def errBadMethod : HsErr := ⟨"ErrHandshakeBadMethod", 405, strBytes "handshake error: bad HTTP request method", []⟩
def errBadHost : HsErr := ⟨"ErrHandshakeBadHost", 400, strBytes "handshake error: bad \"Host\" header", []⟩
def errBadUpgrade : HsErr := ⟨"ErrHandshakeBadUpgrade", 400, strBytes "handshake error: bad \"Upgrade\" header", []⟩
def errBadConnection : HsErr := ⟨"ErrHandshakeBadConnection", 400, strBytes "handshake error: bad \"Connection\" header", []⟩
def errBadSecAccept : HsErr := ⟨"ErrHandshakeBadSecAccept", 400, strBytes "handshake error: bad \"Sec-WebSocket-Accept\" header", []⟩
def errBadSecKey : HsErr := ⟨"ErrHandshakeBadSecKey", 400, strBytes "handshake error: bad \"Sec-WebSocket-Key\" header", []⟩
def errBadSecVersion : HsErr := ⟨"ErrHandshakeBadSecVersion", 400, strBytes "handshake error: bad \"Sec-WebSocket-Version\" header", []⟩
def errUpgradeRequired : HsErr :=
  ⟨"ErrHandshakeUpgradeRequired", 426, strBytes "handshake error: bad \"Sec-WebSocket-Version\" header", strBytes "Sec-WebSocket-Version: 13\r\n"⟩
def errMalformedRequest : HsErr := ⟨"ErrMalformedRequest", 400, strBytes "malformed HTTP request", []⟩

def natBytes (n : Nat) : Bytes := strBytes (toString n)

/-- http.go:httpWriteResponseError. -/
def writeResponseError (e : HsErr) (uHeader : Bytes) : Bytes :=
  let code := if e.code = 0 then 500 else e.code
  strBytes "HTTP/1.1 " ++ natBytes code ++ [32] ++ statusText code ++ crlf
    ++ strBytes "Content-Type: text/plain; charset=utf-8" ++ crlf
    ++ uHeader ++ e.header
    ++ strBytes "Content-Length: " ++ natBytes e.reason.length ++ crlf ++ crlf ++ e.reason

/-- http.go:httpWriteResponseUpgrade. -/
def writeResponseUpgrade (nonce : Bytes) (protocol : Bytes) (exts : List Opt) (uHeader extra : Bytes) : Bytes :=
  strBytes "HTTP/1.1 101 Switching Protocols\r\nUpgrade: websocket\r\nConnection: Upgrade\r\n"
    ++ strBytes "Sec-WebSocket-Accept: " ++ Spec.acceptOf nonce ++ crlf
    ++ (if protocol.isEmpty then [] else strBytes "Sec-WebSocket-Protocol: " ++ protocol ++ crlf)
    ++ (if exts.isEmpty then [] else strBytes "Sec-WebSocket-Extensions: " ++ Lex.writeOptions exts ++ crlf)
    ++ uHeader ++ extra ++ crlf

end Ws
