/-
  M-cipher: cipher.go:Cipher (byte loop / head + 16-byte little-endian word loop + tail),
  wsutil/cipher.go:CipherReader/CipherWriter, frame.go:Mask*/Unmask* helpers.
  encoding/binary.LittleEndian.{Uint32,Uint64,PutUint64} are stdlib, modelled by their contract.
-/
import WsVerif.Model.Header
namespace Ws

/-- `for i := ...; payload[i] ^= mask[(start+i)%4]` over a slice, `start` = mask position of its
    first byte. -/
def xorFrom (m : Mask) : Nat → Bytes → Bytes
  | _, [] => []
  | s, b :: bs => (b ^^^ m.get s) :: xorFrom m (s + 1) bs

/-- cipher.go:remain. -/
def remain (mpos : Nat) : Nat :=
  match mpos with
  | 0 => 0
  | 1 => 3
  | 2 => 2
  | _ => 1

/-- Value of little-endian base-256 digits. -/
def leVal : Bytes → Nat
  | [] => 0
  | b :: bs => b + 256 * leVal bs

/-- `k` little-endian base-256 digits of `w`. -/
def putLe : Nat → Nat → Bytes
  | 0, _ => []
  | k + 1, w => w % 256 :: putLe k (w / 256)

/-- binary.LittleEndian.Uint64 of an 8-byte slice (contract); other lengths are a Go panic. -/
def le64 (c : Bytes) : Option Nat := if c.length = 8 then some (leVal c) else none

/-- binary.LittleEndian.PutUint64 (contract). -/
def putLe64 (w : Nat) : Bytes := putLe 8 w

/-- binary.LittleEndian.Uint32(mask[:]) (contract). -/
def le32 (m : Mask) : Nat := m.m0 + 256 * m.m1 + 65536 * m.m2 + 16777216 * m.m3

/-- The main loop: `n` iterations over 16-byte chunks, two 64-bit loads XOR m2, two stores.
    A chunk shorter than 16 bytes would be a slice panic (`none`). -/
def wordLoop (m2 : Nat) : Nat → Bytes → Option Bytes
  | 0, _ => some []
  | n + 1, p =>
    match le64 (p.take 8), le64 ((p.drop 8).take 8) with
    | some a, some b =>
      match wordLoop m2 n (p.drop 16) with
      | some r => some (putLe64 (a ^^^ m2) ++ putLe64 (b ^^^ m2) ++ r)
      | none => none
    | _, _ => none

/-- cipher.go:Cipher — the payload after the in-place XOR (`none` = a Go panic). -/
def cipher (p : Bytes) (m : Mask) (offset : Nat) : Option Bytes :=
  let n := p.length
  if n < 8 then some (xorFrom m offset p)
  else
    let mpos := offset % 4
    let ln := remain mpos
    let rn := (n - ln) % 16
    let head := xorFrom m mpos (p.take ln)
    let tail := xorFrom m (mpos + (n - rn)) (p.drop (n - rn))
    let m32 := le32 m
    let m2 := (m32 <<< 32) ||| m32
    let cnt := (n - ln - rn) >>> 4
    match wordLoop m2 cnt ((p.drop ln).take (n - ln - rn)) with
    | some mid => some (head ++ mid ++ tail)
    | none => none

/-! ### streaming wrappers (wsutil/cipher.go) -/

structure CipherRd where
  mask : Mask
  pos : Nat
  deriving DecidableEq, Repr

/-- CipherReader.Read(p) with `len p = k`: one underlying read, cipher what was read, advance pos
    by the bytes actually transferred. -/
def CipherRd.read (c : CipherRd) (s : Src) (k : Nat) : Option Bytes × Option Fin × CipherRd × Src :=
  let (got, e, s') := s.read k
  (cipher got c.mask c.pos, e, { c with pos := c.pos + got.length }, s')

/-- A destination accepting at most `acc` bytes per Write (short write => error), recording bytes. -/
structure CipherWr where
  mask : Mask
  pos : Nat
  deriving DecidableEq, Repr

/-- CipherWriter.Write(p) when the destination accepts `n ≤ len p` bytes: the destination receives
    the ciphered copy's first `n` bytes, pos advances by `n`; the caller's slice is untouched. -/
def CipherWr.write (c : CipherWr) (p : Bytes) (n : Nat) : Option Bytes × CipherWr × Bytes :=
  ((cipher p c.mask c.pos).map (·.take n), { c with pos := c.pos + min n p.length }, p)

/-! ### frame helpers (frame.go). Each returns the resulting frame and the caller's payload slice as
    it is after the call (`in place` variants mutate it, copying variants leave it alone). -/

def maskFrameInPlaceWith (f : Frame) (m : Mask) : Option (Frame × Bytes) :=
  (cipher f.payload m 0).map fun p =>
    (⟨{ f.header with masked := true, mask := m }, p⟩, p)

def maskFrameWith (f : Frame) (m : Mask) : Option (Frame × Bytes) :=
  (cipher f.payload m 0).map fun p =>
    (⟨{ f.header with masked := true, mask := m }, p⟩, f.payload)

def unmaskFrameInPlace (f : Frame) : Option (Frame × Bytes) :=
  (cipher f.payload f.header.mask 0).map fun p =>
    (⟨{ f.header with masked := false, mask := Mask.zero }, p⟩, p)

def unmaskFrame (f : Frame) : Option (Frame × Bytes) :=
  (cipher f.payload f.header.mask 0).map fun p =>
    (⟨{ f.header with masked := false, mask := Mask.zero }, p⟩, f.payload)

end Ws
