/-
  M-dial: dialer.go — Dialer.Dial's control flow around the handshake: the dial-phase context
  derived from Timeout, the background fast path (SetDeadline / deferred clear), the watcher
  goroutine of setupContextDeadliner, done(&err), the deferred Close on error.
  Time is discrete (instants are Nat); the peer and the network are described by how long NetDial
  and the undisturbed handshake I/O take (none = never on their own; both honour context/deadline);
  the one scheduler choice (watcher sees `quit` and `ctx.Done()` ready together) is an input.
-/
import WsVerif.Base
namespace Ws.Dial

structure In where
  bg : Bool                 -- ctx == context.Background()
  timeout : Option Nat      -- Dialer.Timeout (none = 0): the instant now+Timeout
  ctxEnd : Option Nat       -- instant at which ctx is cancelled or its own deadline expires
  ctxIsDeadline : Bool := false   -- ctx ends by its deadline (ctx.Err() = DeadlineExceeded) rather than cancel
  dialDur : Option Nat      -- NetDial returns a conn after this long
  hsDur : Option Nat        -- the handshake I/O, undisturbed, finishes after this long
  hsFail : Bool := false    -- … with a non-timeout error (bad response, EOF)
  pickCtx : Bool := false   -- the watcher's select picks ctx.Done() when both cases are ready
  dialIgnores : Bool := false  -- the user's NetDial ignores its context: it returns the conn after dialDur whatever happened
  deriving DecidableEq, Repr

inductive Err where
  | nil | canceled | deadlineExceeded | netTimeout | io
  deriving DecidableEq, Repr

inductive DL where
  | untouched     -- SetDeadline never called
  | cleared       -- last call was SetDeadline(time.Time{})
  | poisoned      -- last call was SetDeadline(aLongTimeAgo)
  | armed         -- last call set a future instant
  deriving DecidableEq, Repr

structure Out where
  connected : Bool          -- NetDial returned a conn
  err : Err
  closed : Bool             -- conn.Close() was called by Dial
  dl : DL
  ret : Option Nat          -- instant Dial returns (none = it never does)
  watcherDone : Bool := true  -- the watcher goroutine has sent its reply (done() received it)
  deriving DecidableEq, Repr

def minO (a b : Option Nat) : Option Nat :=
  match a, b with
  | some x, some y => some (min x y)
  | some x, none => some x
  | none, b => b

/-- ctx.Err() / dialctx.Err() once the limit passed: which of the two ended first. -/
def limitErr (i : In) : Err :=
  match i.ctxEnd, i.timeout with
  | some c, some t => if c ≤ t then (if i.ctxIsDeadline then .deadlineExceeded else .canceled) else .deadlineExceeded
  | some _, none => if i.ctxIsDeadline then .deadlineExceeded else .canceled
  | none, _ => .deadlineExceeded

/-- Dialer.Dial. -/
def dial (i : In) : Out :=
  -- dialctx: ctx, or ctx with the Timeout deadline when that is earlier
  let limit := minO i.ctxEnd i.timeout
  -- dial phase: NetDial honours dialctx (or, a user's NetDial that does not, hands over a conn late)
  let connectedAt : Option Nat :=
    match i.dialDur, limit with
    | some d, some l => if d < l || i.dialIgnores then some d else none
    | some d, none => some d
    | none, _ => none
  match connectedAt with
  | none =>
    { connected := false, err := limitErr i, closed := false, dl := .untouched, ret := limit }
  | some t0 =>
    let finish : Option Nat := i.hsDur.map (t0 + ·)
    if i.bg then
      -- conn.SetDeadline(deadline); defer conn.SetDeadline(noDeadline)
      match i.timeout with
      | none =>
        match finish with
        | none => { connected := true, err := .nil, closed := false, dl := .cleared, ret := none }   -- waits on a silent peer: no limit was asked for
        | some f => { connected := true, err := if i.hsFail then .io else .nil, closed := i.hsFail, dl := .cleared, ret := some f }
      | some t =>
        match finish with
        | some f =>
          if f ≤ t then { connected := true, err := if i.hsFail then .io else .nil, closed := i.hsFail, dl := .cleared, ret := some f }
          else { connected := true, err := .netTimeout, closed := true, dl := .cleared, ret := some (max t t0) }
        | none => { connected := true, err := .netTimeout, closed := true, dl := .cleared, ret := some (max t t0) }
    else
      -- done := setupContextDeadliner(dialctx, conn): the watcher poisons the conn at `limit`
      match limit, finish with
      | none, none => { connected := true, err := .nil, closed := false, dl := .untouched, ret := none }
      | none, some f => { connected := true, err := if i.hsFail then .io else .nil, closed := i.hsFail, dl := .untouched, ret := some f }
      | some l, none => { connected := true, err := limitErr i, closed := true, dl := .poisoned, ret := some (max l t0) }
      | some l, some f =>
        if f < l then { connected := true, err := if i.hsFail then .io else .nil, closed := i.hsFail, dl := .untouched, ret := some f }
        else if l < f then { connected := true, err := limitErr i, closed := true, dl := .poisoned, ret := some (max l t0) }
        else
          -- the handshake finishes at the very instant the context ends: the watcher's choice
          if i.pickCtx then
            { connected := true, err := if i.hsFail then .io else limitErr i, closed := true, dl := .poisoned, ret := some f }
          else { connected := true, err := if i.hsFail then .io else .nil, closed := i.hsFail, dl := .untouched, ret := some f }

end Ws.Dial
