/-
  M-neg: wsflate/parameters.go (Parameters.Parse / Option, bitsFromASCII, setBits) and
  wsflate/extension.go (Extension.Negotiate / Accepted / Reset).
  An httphead.Option is its name and its ordered list of (key, value) pairs (value `[]` = absent).
-/
import WsVerif.Base
import WsVerif.Model.Check
namespace Ws

structure Opt where
  name : Bytes
  params : List (Bytes × Bytes)
  deriving DecidableEq, Repr, Inhabited

/-- wsflate.Parameters. Window bits: 0 = not specified, 1 = "present without value"
    (client_max_window_bits only), else 8..15. -/
structure Params where
  snct : Bool := false      -- ServerNoContextTakeover
  cnct : Bool := false      -- ClientNoContextTakeover
  smwb : Nat := 0           -- ServerMaxWindowBits
  cmwb : Nat := 0           -- ClientMaxWindowBits
  deriving DecidableEq, Repr, Inhabited

def extName : Bytes := strBytes "permessage-deflate"
def kSnct : Bytes := strBytes "server_no_context_takeover"
def kCnct : Bytes := strBytes "client_no_context_takeover"
def kSmwb : Bytes := strBytes "server_max_window_bits"
def kCmwb : Bytes := strBytes "client_max_window_bits"

inductive PErr where
  | duplicate (key : Bytes)
  | invalid (key : Bytes)
  | unexpected (key : Bytes)
  deriving DecidableEq, Repr

/-- The digit loop of bitsFromASCII: decimal digits only, cut off as soon as the value exceeds 15. -/
def digitsVal (p : Bytes) : Option Nat :=
  p.foldl (fun (acc : Option Nat) c =>
    match acc with
    | none => none
    | some n => if 48 ≤ c ∧ c ≤ 57 then (if n * 10 + (c - 48) > 15 then none else some (n * 10 + (c - 48))) else none) (some 0)

/-- parameters.go:bitsFromASCII — decimal digits only, value in 8..15 (no overflow). -/
def bitsFromASCII (p : Bytes) : Option Nat :=
  if p.isEmpty then none else
  match digitsVal p with
  | some n => if 8 ≤ n ∧ n ≤ 15 then some n else none
  | none => none

structure Seen where
  cmwb : Bool := false
  smwb : Bool := false
  cnct : Bool := false
  snct : Bool := false

/-- Parameters.Parse: strict, with duplicate detection. Returns the error (if any) and the
    parameters as they are left in the receiver (partially filled when parsing stopped early). -/
def parseParamsFull (ps : List (Bytes × Bytes)) : Option PErr × Params :=
  let rec go (ps : List (Bytes × Bytes)) (p : Params) (seen : Seen) : Option PErr × Params :=
    match ps with
    | [] => (none, p)
    | (k, v) :: rest =>
      if k = kCmwb then
        if seen.cmwb then (some (.duplicate k), p)
        else if v.isEmpty then go rest { p with cmwb := 1 } { seen with cmwb := true }
        else match bitsFromASCII v with
          | some b => go rest { p with cmwb := b } { seen with cmwb := true }
          | none => (some (.invalid k), { p with cmwb := 0 })
      else if k = kSmwb then
        if v.isEmpty then (some (.invalid k), p)
        else if seen.smwb then (some (.duplicate k), p)
        else match bitsFromASCII v with
          | some b => go rest { p with smwb := b } { seen with smwb := true }
          | none => (some (.invalid k), { p with smwb := 0 })
      else if k = kCnct then
        if !v.isEmpty then (some (.invalid k), p)
        else if seen.cnct then (some (.duplicate k), p)
        else go rest { p with cnct := true } { seen with cnct := true }
      else if k = kSnct then
        if !v.isEmpty then (some (.invalid k), p)
        else if seen.snct then (some (.duplicate k), p)
        else go rest { p with snct := true } { seen with snct := true }
      else (some (.unexpected k), p)
  go ps {} {}

def parseParams (ps : List (Bytes × Bytes)) : Except PErr Params :=
  match parseParamsFull ps with
  | (some e, _) => .error e
  | (none, p) => .ok p

def bitsBytes (b : Nat) : Bytes := strBytes (toString b)

/-- Parameters.Option: the encoder (`none` = panic on an invalid bits value). -/
def Params.option (p : Params) : Option Opt :=
  let bits (k : Bytes) (b : Nat) : Option (List (Bytes × Bytes)) :=
    if b = 0 then some [] else if b = 1 then some [(k, [])]
    else if 8 ≤ b ∧ b ≤ 15 then some [(k, bitsBytes b)] else none
  match bits kSmwb p.smwb, bits kCmwb p.cmwb with
  | some s, some c =>
    some ⟨extName, (if p.snct then [(kSnct, [])] else []) ++ (if p.cnct then [(kCnct, [])] else []) ++ s ++ c⟩
  | _, _ => none

structure NegSt where
  accepted : Bool := false
  params : Params := {}
  deriving DecidableEq, Repr, Inhabited

inductive NegRes where
  | none_                      -- zero option, nil error (not ours / already accepted / declined)
  | accept (o : Opt)
  | error (e : PErr)
  | panic
  deriving DecidableEq, Repr

/-- The three offer-vs-configuration comparisons of Extension.Negotiate: accept? -/
def negDecide (cfg offer : Params) : Bool :=
  -- server_max_window_bits: a requested limit can only be met by a configured value <= it
  !(decide (offer.smwb ≠ 0) && (decide (cfg.smwb = 0) || decide (cfg.smwb > offer.smwb)))
  && !decide (cfg.cmwb > offer.cmwb)
  && !(offer.snct && !cfg.snct)

/-- Extension.Negotiate. -/
def negotiate (cfg : Params) (st : NegSt) (o : Opt) : NegRes × NegSt :=
  if o.name ≠ extName then (.none_, st)
  else if st.accepted then (.none_, st)
  else match parseParamsFull o.params with
    | (some e, part) => (.error e, { st with params := part })
    | (none, offer) =>
      if negDecide cfg offer then
        ((match cfg.option with | some a => .accept a | none => .panic), { accepted := true, params := offer })
      else (.none_, { st with params := offer })

def NegSt.reset (_ : NegSt) : NegSt := {}

end Ws
