/-
  M-flate-frame: wsflate/helper.go — Helper.CompressFrameBuffer / DecompressFrameBuffer.
  The codec (Helper.CompressTo / DecompressTo over compress/flate or a user's) is a PARAMETER: a
  partial function on payloads. What the helper adds — refusing fragments, setting / clearing the
  compression bit with SetBit / UnsetBit, fixing the length — is what is modelled.
-/
import WsVerif.Model.Reader
namespace Ws

inductive HelperErr where
  | fragmented   -- "fragmented messages are not allowed / not supported by helper"
  | bit          -- ErrUnexpectedCompressionBit
  | codec        -- the (de)compressor failed
  deriving DecidableEq, Repr

/-- Helper.CompressFrameBuffer: the returned frame on error is irrelevant to callers (they get the error). -/
def compressFrame (comp : Bytes → Option Bytes) (h : Header) (p : Bytes) : Except HelperErr (Header × Bytes) :=
  if !h.fin then .error .fragmented
  else
    match comp p with
    | none => .error .codec
    | some c =>
      match setBits true { h with len := c.length } with
      | (_, some _) => .error .bit
      | (h', none) => .ok (h', c)

/-- Helper.DecompressFrameBuffer. -/
def decompressFrame (decomp : Bytes → Option Bytes) (h : Header) (p : Bytes) : Except HelperErr (Header × Bytes) :=
  if !h.fin then .error .fragmented
  else
    match unsetBits false h with
    | (_, some _, _) => .error .bit
    | (h', none, false) => .ok (h', p)
    | (h', none, true) =>
      match decomp p with
      | none => .error .codec
      | some d => .ok ({ h' with len := d.length }, d)

end Ws
