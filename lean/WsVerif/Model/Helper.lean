/-
  M-helper: wsutil/helper.go — ReadMessage, readData (ReadData and its Client/Server Text/Binary
  variants), ControlFrameHandler, HandleControlMessage; ioutil.ReadAll / io.ReadFull /
  bytes.Buffer.ReadFrom over the message reader (stdlib loops, modelled with a fixed 512-byte read
  size: the reader's results are chunk-size independent — Props.C04).
-/
import WsVerif.Model.Reader
import WsVerif.Model.Control
namespace Ws

def rdErrOf : RErr → Option RdErr
  | .eof => some .eof
  | .ueof => some .ueof
  | .fail => some .fail
  | _ => none

/-- Read the current frame (`viaReader = false`: the frame stack handed to callbacks) or the message
    reader itself (`viaReader = true`: `&rd`) until it reports an error; returns the chunks read and
    that error (`.eof` = clean end). -/
def Rd.pull (viaReader : Bool) (k : Nat) (onInter : Option Callback) :
    Nat → Rd → Src → Ctx → List Bytes → List Bytes × RErr × Rd × Src × Ctx
  | 0, r, s, cx, acc => (acc.reverse, .fault, r, s, cx)
  | fuel + 1, r, s, cx, acc =>
    if viaReader then
      match r.read s cx k onInter with
      | none => (acc.reverse, .fault, r, s, cx)
      | some (bytes, n, e, r', s', cx') =>
        -- the caller keeps p[:n]; when the reader reports more than it wrote (a stale `accepted`
        -- after NextFrame was called in the middle of a text frame) the rest of p[:n] is what
        -- ioutil.ReadAll's fresh buffer held: zeros
        let acc' := if n = 0 then acc else (bytes ++ List.replicate (n - bytes.length) 0).take n :: acc
        match e with
        | some e => (acc'.reverse, e, r', s', cx')
        | none => Rd.pull viaReader k onInter fuel r' s' cx' acc'
    else
      match r.frameRead s k with
      | none => (acc.reverse, .fault, r, s, cx)
      | some (bytes, n, e, r', s') =>
        let acc' := if n = 0 then acc else bytes.take n :: acc
        match e with
        | some e => (acc'.reverse, e, r', s', cx)
        | none => Rd.pull viaReader k onInter fuel r' s' cx acc'

def pullFuel (s : Src) : Nat := 2 * s.fuel + 8

def cerrToR : CErr → RErr
  | .dest => .handler "dest"
  | .src .eof => .eof
  | .src .ueof => .ueof
  | .src .fail => .fail
  | .srcOther t => .handler t
  | .proto e => .proto e
  | .closed c r => .closed c r
  | .notControl => .handler "notcontrol"
  | .overflow => .handler "ctloverflow"

/-- wsutil.ControlFrameHandler(w, state): ControlHandler{DisableSrcCiphering: true, Src: r}.Handle(h),
    with `r` = the frame stack (OnIntermediate) or the message reader (readData's main loop). -/
def controlFrameHandler (client : Bool) (errText : ProtoErr → Bytes) (viaReader : Bool)
    (onInter : Option Callback) : Callback := fun h r s cx =>
  -- the handler reads lazily; what it can read is the pull of the source it is given
  let needsPayload := h.len ≠ 0 ∧ (h.op = opPing ∨ h.op = opPong ∨ h.op = opClose)
  if ¬ needsPayload then
    match handleControl client h { chunks := [] } false cx.env errText with
    | none => ⟨some .fault, r, s, cx⟩
    | some (er, env') => ⟨er.map cerrToR, r, s, { cx with env := env', events := cx.events ++ [(h.op, [])] }⟩
  else
    let (chunks, endE, r', s', cx') := Rd.pull viaReader 32768 onInter (pullFuel s) r s cx []
    -- HandleClose stops after io.ReadFull got h.len bytes; ping/pong read to the end
    let src : CtlSrc := { chunks, fin := if endE = .fail then .fail else .eof, ueofEnd := endE = .ueof }
    match rdErrOf endE with
    | none => ⟨some endE, r', s', cx'⟩      -- a non-I/O error surfaced while reading (e.g. protocol error)
    | some _ =>
      match handleControl client h src false cx'.env errText with
      | none => ⟨some .fault, r', s', cx'⟩
      | some (er, env') =>
        ⟨er.map cerrToR, r', s', { cx' with env := env', events := cx'.events ++ [(h.op, chunks.flatten)] }⟩

/-- ioutil.ReadAll(&rd). -/
def readAllRd (r : Rd) (s : Src) (cx : Ctx) (onInter : Option Callback) :
    Bytes × Option RErr × Rd × Src × Ctx :=
  let (chunks, e, r', s', cx') := Rd.pull true 512 onInter (pullFuel s) r s cx []
  (chunks.flatten, if e = .eof then none else some e, r', s', cx')

/-- the OnIntermediate handler wsutil.ReadMessage installs: read the control frame's payload to its
    end and append it as a message of its own -/
def collectCb : Callback := fun h r s cx =>
  let (chunks, e, r', s', cx') := Rd.pull false 512 none (pullFuel s) r s cx []
  if e = .eof then ⟨none, r', s', { cx' with msgs := cx'.msgs ++ [(h.op, chunks.flatten)] }⟩
  else ⟨some e, r', s', cx'⟩

/-- wsutil.ReadMessage(r, s, m): returns the appended messages (intermediate control frames first,
    then the data message) and the error. -/
def readMessage (state : Nat) (s : Src) : List (Nat × Bytes) × Option RErr × Src :=
  let collect : Callback := collectCb
  let rd : Rd := { state, checkUTF8 := true }
  match rd.nextFrame s {} (some collect) with
  | (_, some e, _, s1, cx) => (cx.msgs, some e, s1)
  | (none, none, _, s1, cx) => (cx.msgs, some .fault, s1)
  | (some h, none, r1, s1, cx) =>
    if h.fin then
      -- p = make([]byte, h.Length); io.ReadFull(&rd, p)
      let rec fill (fuel : Nat) (r : Rd) (s : Src) (cx : Ctx) (acc : Bytes) : Bytes × Option RErr × Src × Ctx :=
        match fuel with
        | 0 => (acc, some .fault, s, cx)
        | fuel + 1 =>
          if acc.length ≥ h.len then (acc, none, s, cx)
          else match r.read s cx (h.len - acc.length) (some collect) with
            | none => (acc, some .fault, s, cx)
            | some (bytes, n, e, r', s', cx') =>
              let acc' := acc ++ bytes.take n
              match e with
              | none => fill fuel r' s' cx' acc'
              | some e =>
                if acc'.length ≥ h.len then (acc', none, s', cx')
                else (acc', some (if e = .eof then (if acc'.isEmpty then .eof else .ueof) else e), s', cx')
      let (p, e, s2, cx2) := fill (pullFuel s1) r1 s1 cx []
      match e with
      | some e => (cx2.msgs, some e, s2)
      | none => (cx2.msgs ++ [(h.op, p)], none, s2)
    else
      let (p, e, _, s2, cx2) := readAllRd r1 s1 cx (some collect)
      match e with
      | some e => (cx2.msgs, some e, s2)
      | none => (cx2.msgs ++ [(h.op, p)], none, s2)

/-- wsutil.readData(rw, s, want). -/
def readData (state : Nat) (want : Nat) (errText : ProtoErr → Bytes) (s : Src) (env : Env) :
    Nat → Bytes × Nat × Option RErr × Src × Ctx
  | fuel =>
    let client := stIs state stClient
    let inter : Callback := controlFrameHandler client errText false none
    let rec loop (fuel : Nat) (r : Rd) (s : Src) (cx : Ctx) : Bytes × Nat × Option RErr × Src × Ctx :=
      match fuel with
      | 0 => ([], 0, some .fault, s, cx)
      | fuel + 1 =>
        match r.nextFrame s cx (some inter) with
        | (_, some e, _, s1, cx1) => ([], 0, some e, s1, cx1)
        | (none, none, _, s1, cx1) => ([], 0, some .fault, s1, cx1)
        | (some h, none, r1, s1, cx1) =>
          if opIsControl h.op then
            let res := controlFrameHandler client errText true (some inter) h r1 s1 cx1
            match res.err with
            | some e => ([], 0, some e, res.src, res.ctx)
            | none => loop fuel res.rd res.src res.ctx
          else if h.op &&& want == 0 then
            match r1.discard s1 cx1 (some inter) (pullFuel s1) with
            | (some e, _, s2, cx2) => ([], 0, some e, s2, cx2)
            | (none, r2, s2, cx2) => loop fuel r2 s2 cx2
          else
            let (p, e, _, s2, cx2) := readAllRd r1 s1 cx1 (some inter)
            (p, h.op, e, s2, cx2)
    loop fuel { state, checkUTF8 := true } s { env }

end Ws
