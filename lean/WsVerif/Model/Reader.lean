/-
  M-reader: wsutil/reader.go — Reader (NextFrame, Read, Discard, reset, resetFragment), the frame
  reader stack (io.LimitedReader → CipherReader → UTF8Reader), NextReader.
  The transport is `Src`; OnIntermediate / OnContinuation callbacks are parameters of the operations
  that can invoke them. The recv extension is at most wsflate.MessageState (`ext`, `compressed`).
-/
import WsVerif.Model.Check
import WsVerif.Model.Cipher
import WsVerif.Model.Utf8
import WsVerif.Model.Writer
namespace Ws

inductive RErr where
  | eof | ueof | fail            -- io.EOF, io.ErrUnexpectedEOF, transport error
  | noAdvance | tooLarge | utf8
  | proto (e : ProtoErr)
  | hdr (e : HdrErr)             -- ErrHeaderLengthMSB / Unexpected (never .io)
  | closed (code : Nat) (reason : Bytes)   -- wsutil.ClosedError from a control handler
  | handler (e : String)         -- other error from a callback / control handler
  | fault                        -- Go panic
  deriving DecidableEq, Repr

structure Rd where
  state : Nat                  -- ws.State bit set
  skipCheck : Bool := false
  checkUTF8 : Bool := false
  ext : Bool := false          -- a wsflate.MessageState is attached as RecvExtension
  compressed : Bool := false   -- its state
  maxFrame : Nat := 0
  opCode : Nat := 0
  hasFrame : Bool := false     -- r.frame != nil
  rawN : Nat := 0              -- r.raw.N
  masked : Bool := false       -- r.frame goes through the CipherReader
  mask : Mask := Mask.zero
  cpos : Nat := 0
  utf8on : Bool := false       -- r.frame goes through &r.utf8
  utf8 : Utf8Rd := {}
  deriving DecidableEq, Repr, Inhabited

def Rd.fragmented (r : Rd) : Bool := stIs r.state stFragmented

/-- reader.go:limitedReader{R: Source, N: rawN}.Read(p), len p = k: like io.LimitedReader, but a
    source that ends before N bytes were read is io.ErrUnexpectedEOF. -/
def Rd.rawRead (r : Rd) (s : Src) (k : Nat) : Bytes × Option RdErr × Rd × Src :=
  if r.rawN = 0 then ([], some .eof, r, s)
  else
    let (got, e, s') := s.read (min k r.rawN)
    let n' := r.rawN - got.length
    let e' : Option RdErr := match e with
      | none => none
      | some .fail => some .fail
      | some .eof => if n' > 0 then some .ueof else some .eof
    (got, e', { r with rawN := n' }, s')

/-- One Read(p) of the frame reader stack. Returns bytes delivered into p (first n meaningful),
    the reported n, the error. -/
def Rd.frameRead (r : Rd) (s : Src) (k : Nat) : Option (Bytes × Nat × Option RErr × Rd × Src) :=
  let (got, e, r1, s1) := r.rawRead s k
  -- CipherReader
  let plain? := if r1.masked then cipher got r1.mask r1.cpos else some got
  match plain? with
  | none => none
  | some plain =>
    let r2 := if r1.masked then { r1 with cpos := r1.cpos + got.length } else r1
    let ioErr : Option RErr := e.map fun f => match f with | .eof => RErr.eof | .ueof => RErr.ueof | .fail => RErr.fail
    if r2.utf8on then
      match r2.utf8.feed plain with
      | none => none
      | some (n, bad, u') =>
        if bad then some (plain, n, some .utf8, { r2 with utf8 := u' }, s1)
        else some (plain, n, ioErr, { r2 with utf8 := u' }, s1)
    else some (plain, plain.length, ioErr, r2, s1)

def Rd.resetFragment (r : Rd) : Rd := { r with rawN := 0, hasFrame := false, utf8on := false }
def Rd.reset (r : Rd) : Rd :=
  { r with rawN := 0, hasFrame := false, utf8on := false, utf8 := {}, opCode := 0 }

/-- wsflate.MessageState.UnsetBits. -/
def unsetBits (compressed : Bool) (h : Header) : Header × Option ProtoErr × Bool :=
  let r1 := h.rsv &&& 4 != 0
  if opIsData h.op && h.op != opContinuation then
    ({ h with rsv := h.rsv &&& 3 }, none, r1)
  else if r1 then (h, some .unexpectedCompressionBit, compressed)
  else (h, none, compressed)

/-- wsflate.MessageState.SetBits (any incoming RSV). -/
def setBits (compressed : Bool) (h : Header) : Header × Option ProtoErr :=
  if h.rsv &&& 4 != 0 then (h, some .unexpectedCompressionBit)
  else if !opIsData h.op || h.op == opContinuation then (h, none)
  else if compressed then ({ h with rsv := h.rsv ||| 4 }, none)
  else (h, none)

/-- Everything outside the reader that callbacks may touch: the destination (control replies),
    collected messages (ReadMessage's OnIntermediate) and a log of control frames handed to handlers. -/
structure Ctx where
  env : Env := {}
  msgs : List (Nat × Bytes) := []
  events : List (Nat × Bytes) := []
  deriving DecidableEq, Repr, Inhabited

/-- What a callback invoked by NextFrame did: it is given the frame reader and may read from it. -/
structure CbResult where
  err : Option RErr
  rd : Rd
  src : Src
  ctx : Ctx

abbrev Callback := Header → Rd → Src → Ctx → CbResult

/-- Drain `io.Copy(ioutil.Discard, &r.raw)`: read the limited reader until EOF/error. -/
def Rd.drainRaw (r : Rd) (s : Src) : Nat → Option RErr × Rd × Src
  | 0 => (some .fault, r, s)
  | fuel + 1 =>
    let (got, e, r', s') := r.rawRead s 32768
    match e with
    | some .eof => (none, r', s')
    | some .ueof => (some .ueof, r', s')
    | some .fail => (some .fail, r', s')
    | none => if got.isEmpty ∧ r'.rawN = r.rawN ∧ s'.chunks.length = s.chunks.length then (some .fault, r', s')
              else Rd.drainRaw r' s' fuel

def Src.fuel (s : Src) : Nat := s.bytes.length + s.chunks.length + 4

/-- Reader.NextFrame. `onInter` is the OnIntermediate callback (given header, reader state with the
    frame stack set up, and source); `none` = not set. -/
def Rd.nextFrame (r : Rd) (s : Src) (cx : Ctx)
    (onInter : Option Callback) : Option Header × Option RErr × Rd × Src × Ctx :=
  match readHeaderUtil s with
  | (.error (.io e), s1) =>
    let e' : RErr := match e with
      | .eof => if r.fragmented then .ueof else .eof
      | .ueof => .ueof
      | .fail => .fail
    (none, some e', r, s1, cx)
  | (.error e, s1) => (none, some (.hdr e), r, s1, cx)
  | (.ok hdr, s1) =>
    match (if r.skipCheck then none else checkHeader hdr r.state) with
    | some pe => (some hdr, some (.proto pe), r, s1, cx)
    | none =>
      if r.maxFrame > 0 ∧ hdr.len > r.maxFrame then (some hdr, some .tooLarge, r, s1, cx)
      else
        let r1 := { r with rawN := hdr.len, masked := hdr.masked, mask := hdr.mask, cpos := 0, utf8on := false }
        let (hdr2, xerr, comp) := if r.ext then unsetBits r.compressed hdr else (hdr, none, r.compressed)
        let r2 := { r1 with compressed := comp }
        match xerr with
        | some pe =>
          -- r.frame is NOT replaced on this path: a frame still installed (NextFrame called mid-frame) keeps
          -- its own chain — through the cipher reader or not, through the validator or not; the shared
          -- cipher reader has been re-keyed only if the refused frame is masked
          (some hdr2, some (.proto pe),
            { r with rawN := hdr.len, compressed := comp,
                     mask := if hdr.masked then hdr.mask else r.mask,
                     cpos := if hdr.masked then 0 else r.cpos }, s1, cx)
        | none =>
          if r2.fragmented && opIsControl hdr2.op then
            match onInter with
            | some cb =>
              let res := cb hdr2 r2 s1 cx
              match res.err with
              | some e => (some hdr2, some e, res.rd, res.src, res.ctx)
              | none =>
                let (e, r3, s3) := res.rd.drainRaw res.src res.src.fuel
                (some hdr2, e, r3, s3, res.ctx)
            | none =>
              let (e, r3, s3) := r2.drainRaw s1 s1.fuel
              (some hdr2, e, r3, s3, cx)
          else
            let r3 := if r2.fragmented then r2 else { r2 with opCode := hdr2.op }
            let useUtf8 := r3.checkUTF8 && (hdr2.op == opText || (r3.fragmented && r3.opCode == opText))
            let r4 := { r3 with utf8on := useUtf8, hasFrame := true }
            let r5 := { r4 with state := if hdr2.fin then stClear r4.state stFragmented else stSet r4.state stFragmented }
            (some hdr2, none, r5, s1, cx)

/-- Reader.Read(p), len p = k. Returns the bytes placed in p, the reported n and the error. -/
def Rd.read (r : Rd) (s : Src) (cx : Ctx) (k : Nat)
    (onInter : Option Callback) : Option (Bytes × Nat × Option RErr × Rd × Src × Ctx) :=
  let start : Option (Nat × Option RErr) × Rd × Src × Ctx :=
    if !r.hasFrame then
      if !r.fragmented then (some (0, some .noAdvance), r, s, cx)
      else
        let (_, e, r1, s1, cx1) := r.nextFrame s cx onInter
        match e with
        | some e => (some (0, some e), r1, s1, cx1)
        | none => if !r1.hasFrame then (some (0, none), r1, s1, cx1) else (none, r1, s1, cx1)
    else (none, r, s, cx)
  match start with
  | (some (n, e), r1, s1, cx1) => some ([], n, e, r1, s1, cx1)
  | (none, r1, s1, cx1) =>
    match r1.frameRead s1 k with
    | none => none
    | some (bytes, n, e, r2, s2) =>
      match e with
      | some .eof | none =>
        if e.isNone && r2.rawN != 0 then some (bytes, n, none, r2, s2, cx1)
        else if r2.rawN != 0 then some (bytes, n, some .ueof, r2, s2, cx1)
        else if r2.fragmented then some (bytes, n, none, r2.resetFragment, s2, cx1)
        else if r2.checkUTF8 && !r2.utf8.valid then some (bytes, r2.utf8.accepted, some .utf8, r2, s2, cx1)
        else some (bytes, n, some .eof, r2.reset, s2, cx1)
      | some e =>
        -- the transport failed while handing over the LAST bytes of a text message that does not end on a
        -- character boundary: the verdict on the text stands (helpers like io.ReadFull drop an error
        -- that comes with the bytes that fill their buffer)
        if e != .utf8 && r2.rawN == 0 && !r2.fragmented && r2.checkUTF8 && !r2.utf8.valid then
          some (bytes, r2.utf8.accepted, some .utf8, r2, s2, cx1)
        else some (bytes, n, some e, r2, s2, cx1)

/-- Reader.Discard. -/
def Rd.discard (r : Rd) (s : Src) (cx : Ctx) (onInter : Option Callback) :
    Nat → Option RErr × Rd × Src × Ctx
  | 0 => (some .fault, r, s, cx)
  | fuel + 1 =>
    let (e, r1, s1) := r.drainRaw s s.fuel
    match e with
    | some e => (some e, r1.reset, s1, cx)
    | none =>
      if !r1.fragmented then (none, r1.reset, s1, cx)
      else
        let (_, e2, r2, s2, cx2) := r1.nextFrame s1 cx onInter
        match e2 with
        | some e => (some e, r2.reset, s2, cx2)
        | none => Rd.discard r2 s2 cx2 onInter fuel

end Ws
