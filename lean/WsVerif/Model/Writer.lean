/-
  M-writer: wsutil/writer.go — Writer (Write, WriteThrough, ReadFrom, Flush, FlushFragment, Grow,
  Reset, ResetOp, constructors, GetWriter), ControlWriter, writeFrame (WriteMessage family),
  reserve, headerSize, ceilPowerOfTwo.
  Masks chosen by ws.NewMask() are an input of the model (`Env.masks`, read off the wire by the
  harness). The destination is `Dst`: every dest.Write call is recorded; one call index may fail.
  Extensions: at most the wsflate.MessageState send extension (`ext = some compressed`).
-/
import WsVerif.Model.Cipher
import WsVerif.Model.Check
namespace Ws

/-- The destination io.Writer: records each successful Write; call number `failAt` fails
    (writing nothing). -/
structure Dst where
  writes : List Bytes := []
  calls : Nat := 0
  failAt : Option Nat := none
  deriving DecidableEq, Repr, Inhabited

def Dst.write (d : Dst) (p : Bytes) : Bool × Dst :=
  if d.failAt = some d.calls then (false, { d with calls := d.calls + 1 })
  else (true, { d with writes := d.writes ++ [p], calls := d.calls + 1 })

def Dst.bytes (d : Dst) : Bytes := d.writes.flatten

structure Env where
  dst : Dst := {}
  masks : List Mask := []
  deriving DecidableEq, Repr, Inhabited

def Env.popMask (e : Env) : Mask × Env :=
  match e.masks with
  | [] => (Mask.zero, e)
  | m :: ms => (m, { e with masks := ms })

/-- writer.go:reserve — header space derived from the *buffer* size. -/
def reserve (client : Bool) (n : Nat) : Nat :=
  let mask := if client then 4 else 0
  if n ≤ 125 + mask + 2 then mask + 2
  else if n ≤ 65535 + mask + 4 then mask + 4
  else mask + 10

/-- writer.go:headerSize — bytes needed for a header of a frame of length n. -/
def wHeaderSize (client : Bool) (n : Nat) : Nat :=
  (if n < 126 then 2 else if n ≤ 65535 then 4 else 10) + (if client then 4 else 0)

/-- writer.go:ceilPowerOfTwo (bit smearing, then +1: the next power of two strictly above n). -/
def ceilPowerOfTwo (n : Nat) : Nat :=
  let n := n ||| (n >>> 1)
  let n := n ||| (n >>> 2)
  let n := n ||| (n >>> 4)
  let n := n ||| (n >>> 8)
  let n := n ||| (n >>> 16)
  let n := n ||| (n >>> 32)
  n + 1

def defaultWriteBuffer : Nat := 4096

structure Wr where
  client : Bool
  op : Nat
  rawLen : Nat            -- len(w.raw)
  off : Nat               -- len(w.raw) - len(w.buf): reserved header bytes
  buf : Bytes := []       -- w.buf[:w.n]
  dirty : Bool := false
  fseq : Nat := 0
  noFlush : Bool := false
  err : Bool := false     -- sticky destination error (w.err != nil)
  ext : Option Bool := none   -- MessageState send extension: some compressed
  deriving DecidableEq, Repr, Inhabited

def Wr.size (w : Wr) : Nat := w.rawLen - w.off
def Wr.available (w : Wr) : Nat := w.size - w.buf.length
def Wr.opCode (w : Wr) : Nat := if w.fseq > 0 then opContinuation else w.op

inductive WErr where
  | dest        -- the destination's error (sticky)
  | notEmpty
  | noProgress
  | srcFail     -- ReadFrom: the source's error
  | ctlOverflow
  deriving DecidableEq, Repr

/-- NewWriterBuffer: `none` = panic("wsutil: writer buffer is too small"). -/
def newWriterBuffer (client : Bool) (op rawLen : Nat) : Option Wr :=
  let off := reserve client rawLen
  if rawLen ≤ off then none else some { client, op, rawLen, off }

def newWriterBufferSize (client : Bool) (op n : Nat) : Option Wr :=
  newWriterBuffer client op (if n ≤ 2 then defaultWriteBuffer else n)

def newWriterSize (client : Bool) (op n : Nat) : Option Wr :=
  newWriterBufferSize client op (if n > 0 then n + wHeaderSize client n else n)

def newWriter (client : Bool) (op : Nat) : Option Wr := newWriterBufferSize client op 0

/-- gobwas/pool size class for GetWriter: ceil to a power of two when that is a pooled class
    in [128, 65536], else the size itself. (PutWriter never actually recycles: Size() is not a
    class key — so GetWriter always constructs.) -/
def poolCeil (n : Nat) : Nat :=
  let c := if n ≤ 2 then n else ceilPowerOfTwo (n - 1)
  if 128 ≤ c ∧ c ≤ 65536 then c else n

def getWriter (client : Bool) (op n : Nat) : Option Wr := newWriterBufferSize client op (poolCeil n)

/-- MessageState.SetBits on a fresh header (Rsv = 0): RSV1 on first data frames of a compressed
    message only. -/
def extRsv (ext : Option Bool) (op : Nat) : Nat :=
  match ext with
  | some true => if opIsData op && op != opContinuation then 4 else 0
  | _ => 0

/-- Header bytes and wire payload of one outgoing frame: on the client side draw a key, set
    Masked/Mask and XOR a copy of the payload (ws.MaskFrameInPlace / ws.Cipher); `none` = panic. -/
def sealFrame (client : Bool) (h0 : Header) (p : Bytes) (e : Env) : Option (Bytes × Bytes × Env) :=
  if client then
    match cipher p e.popMask.1 0, writeHeader { h0 with masked := true, mask := e.popMask.1 } with
    | some pl, .ok hb => some (hb, pl, e.popMask.2)
    | _, _ => none
  else
    match writeHeader h0 with
    | .ok hb => some (hb, p, e)
    | .error _ => none

/-- Writer.flushFragment(fin): one destination Write of header ++ payload. `none` = slice panic
    (header larger than the reserved space). Returns whether the destination accepted it. -/
def Wr.flushFragment (w : Wr) (e : Env) (fin : Bool) : Option (Bool × Env) :=
  let h0 : Header := { fin, rsv := extRsv w.ext w.opCode, op := w.opCode, masked := false,
                       mask := Mask.zero, len := w.buf.length }
  match sealFrame w.client h0 w.buf e with
  | none => none
  | some (hb, pl, e1) =>
    if hb.length > w.off then none
    else some ((e1.dst.write (hb ++ pl)).1, { e1 with dst := (e1.dst.write (hb ++ pl)).2 })

/-- Writer.Flush. -/
def Wr.flush (w : Wr) (e : Env) : Option (Option WErr × Wr × Env) :=
  if (!w.dirty && w.buf.length == 0) || w.err then some (if w.err then some .dest else none, w, e)
  else match w.flushFragment e true with
    | none => none
    | some (ok, e') =>
      some (if ok then none else some .dest,
            { w with err := !ok, buf := [], dirty := false, fseq := 0 }, e')

/-- Writer.FlushFragment. -/
def Wr.flushFrag (w : Wr) (e : Env) : Option (Option WErr × Wr × Env) :=
  if w.buf.length == 0 || w.err then some (if w.err then some .dest else none, w, e)
  else match w.flushFragment e false with
    | none => none
    | some (ok, e') =>
      some (if ok then none else some .dest, { w with err := !ok, buf := [], fseq := w.fseq + 1 }, e')

/-- Writer.WriteThrough: ws.WriteFrame = two destination writes (header, payload). -/
def Wr.writeThrough (w : Wr) (e : Env) (p : Bytes) : Option (Nat × Option WErr × Wr × Env) :=
  if w.err then some (0, some .dest, w, e)
  else if w.buf.length != 0 then some (0, some .notEmpty, w, e)
  else
    let h0 : Header := { fin := false, rsv := extRsv w.ext w.opCode, op := w.opCode, masked := false,
                         mask := Mask.zero, len := p.length }
    match sealFrame w.client h0 p e with
    | none => none
    | some (hb, pl, e1) =>
      let r1 := e1.dst.write hb
      if !r1.1 then
        some (0, some .dest, { w with err := true, dirty := true, fseq := w.fseq + 1 }, { e1 with dst := r1.2 })
      else
        let r2 := r1.2.write pl
        some (if r2.1 then p.length else 0, if r2.1 then none else some .dest,
              { w with err := !r2.1, dirty := true, fseq := w.fseq + 1 }, { e1 with dst := r2.2 })

/-- Writer.Grow(n). `none` = panic("buffer grow leads to its reduce") or fuel exhausted. -/
def Wr.grow (w : Wr) (n : Nat) : Option Wr :=
  let buffered := w.buf.length
  let rec loop (fuel size nextOff : Nat) : Option (Nat × Nat) :=
    if size - nextOff - buffered < n then
      match fuel with
      | 0 => none
      | fuel + 1 =>
        let size' := ceilPowerOfTwo (nextOff + buffered + n)
        loop fuel size' (reserve w.client size')
    else some (size, nextOff)
  match loop 8 w.rawLen w.off with
  | none => none
  | some (size, nextOff) =>
    if size < w.rawLen then none
    else if size = w.rawLen then some w
    else some { w with rawLen := size, off := nextOff }

/-- Writer.Write. Returns (n, err). `fuel` bounds the fill-and-flush loop. -/
def Wr.write (w : Wr) (e : Env) (p : Bytes) : Option (Nat × Option WErr × Wr × Env) :=
  let rec loop (fuel : Nat) (w : Wr) (e : Env) (p : Bytes) (n : Nat) : Option (Nat × Option WErr × Wr × Env) :=
    if p.length > w.available && !w.err then
      match fuel with
      | 0 => none
      | fuel + 1 =>
        if w.noFlush then
          match w.grow p.length with
          | none => none
          | some w' => loop fuel w' e p n
        else if w.buf.length == 0 then
          match w.writeThrough e p with
          | none => none
          | some (nn, _, w', e') => loop fuel w' e' (p.drop nn) (n + nn)
        else
          let nn := w.available
          let w1 := { w with buf := w.buf ++ p.take nn }
          match w1.flushFrag e with
          | none => none
          | some (_, w', e') => loop fuel w' e' (p.drop nn) (n + nn)
    else if w.err then some (n, some .dest, w, e)
    else some (n + p.length, none, { w with buf := w.buf ++ p }, e)
  loop 6 { w with dirty := true } e p 0

/-- Writer.ReadFrom. -/
def Wr.readFrom (w : Wr) (e : Env) (s : Src) : Option (Nat × Option WErr × Wr × Env × Src) :=
  let rec loop (fuel : Nat) (w : Wr) (e : Env) (s : Src) (n : Nat) (empties : Nat) :
      Option (Nat × Option WErr × Wr × Env × Src) :=
    match fuel with
    | 0 => none
    | fuel + 1 =>
      if w.available == 0 then
        if w.noFlush then
          match w.grow w.buf.length with
          | none => none
          | some w' => loop fuel w' e s n 0
        else
          match w.flushFrag e with
          | none => none
          | some (some er, w', e') => some (n, some er, w', e', s)
          | some (none, w', e') => loop fuel w' e' s n 0
      else
        let (got, fin, s') := s.read w.available
        match fin with
        | some .eof => some (n + got.length, none, { w with buf := w.buf ++ got, dirty := true }, e, s')
        | some .fail =>
          some (n + got.length, some .srcFail, { w with buf := w.buf ++ got, dirty := w.dirty || !got.isEmpty }, e, s')
        | none =>
          if got.isEmpty then
            if empties + 1 ≥ 100 then some (n, some .noProgress, w, e, s')
            else loop fuel w e s' n (empties + 1)
          else loop fuel { w with buf := w.buf ++ got, dirty := true } e s' (n + got.length) 0
  loop (2 * (s.bytes.length + s.chunks.length) + 8) w e s 0 0

/-- Writer.Reset(dest, state, op): everything but the raw buffer is put back (incl. the sticky error, fix 61d761f). -/
def Wr.reset (w : Wr) (client : Bool) (op : Nat) : Option Wr :=
  let off := reserve client w.rawLen
  if w.rawLen ≤ off then none
  else some { w with client, op, off, buf := [], dirty := false, fseq := 0, err := false, ext := none, noFlush := false }

/-- Writer.ResetOp. -/
def Wr.resetOp (w : Wr) (op : Nat) : Wr := { w with op, buf := [], dirty := false, fseq := 0 }

/-- wsutil.writeFrame / WriteMessage: one frame, two destination writes. -/
def writeMessage (e : Env) (client : Bool) (op : Nat) (fin : Bool) (p : Bytes) : Option (Bool × Env) :=
  let h0 : Header := { fin, rsv := 0, op, masked := false, mask := Mask.zero, len := p.length }
  match sealFrame client h0 p e with
  | none => none
  | some (hb, pl, e1) =>
    let r1 := e1.dst.write hb
    if !r1.1 then some (false, { e1 with dst := r1.2 })
    else
      let r2 := r1.2.write pl
      some (r2.1, { e1 with dst := r2.2 })

/-! ### ControlWriter -/

structure CtlWr where
  w : Wr
  limit : Nat
  n : Nat := 0
  deriving DecidableEq, Repr

def newControlWriter (client : Bool) (op : Nat) : Option CtlWr :=
  (newWriterSize client op maxControlFramePayloadSize).map fun w => { w, limit := maxControlFramePayloadSize }

def newControlWriterBuffer (client : Bool) (op bufLen : Nat) : Option CtlWr :=
  let mx := maxControlFramePayloadSize + wHeaderSize client maxControlFramePayloadSize
  let len := if bufLen > mx then mx else bufLen
  (newWriterBuffer client op len).map fun w => { w, limit := w.size }

end Ws
