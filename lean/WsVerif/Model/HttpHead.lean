/-
  M-lex: the dependency github.com/gobwas/httphead v0.1.0 as far as gobwas/ws uses it —
  octet classes, Scanner (tokens, separators, quoted strings, comments, LWS), ScanTokens,
  ScanOptions, OptionSelector.Select (SelectCopy), WriteOptions. MODELLED, not part of /repo:
  validated by correspondence like everything else and listed in the trusted base.
  Quirks are mirrored, not repaired (e.g. RemoveByte drops the last byte when the removed byte
  is the one before it).
-/
import WsVerif.Model.Negotiate
namespace Ws.Lex
open Ws

def isSeparatorChar (c : Nat) : Bool :=
  c == 40 || c == 41 || c == 60 || c == 62 || c == 64 || c == 44 || c == 59 || c == 58 || c == 34
    || c == 47 || c == 91 || c == 93 || c == 63 || c == 61 || c == 123 || c == 125 || c == 92
/-- OctetTypes[c].IsSpace(): the table is only filled for c ≥ 32, so HT (9) is NOT a space here. -/
def isSpace (c : Nat) : Bool := c == 32
/-- OctetTypes[c].IsSeparator() (the table is only filled for c ≥ 32). -/
def isSeparator (c : Nat) : Bool := decide (32 ≤ c) && (isSeparatorChar c || isSpace c)
def isControl (c : Nat) : Bool := c == 127      -- entries below 32 are never initialised
/-- OctetTypes[c].IsToken(): CHAR, not CTL, not separator, not space. -/
def isToken (c : Nat) : Bool := decide (32 ≤ c) && decide (c ≤ 127) && !isControl c && !isSeparatorChar c && !isSpace c

inductive Item where
  | token (b : Bytes)
  | sep (c : Nat)
  | str (b : Bytes)
  | comment (b : Bytes)
  deriving DecidableEq, Repr

/-- SkipSpace: spaces, tabs and CRLF followed by a space/tab. -/
def skipSpace : Bytes → Bytes
  | 13 :: 10 :: c :: rest => if isSpace c then skipSpace rest else 13 :: 10 :: c :: rest
  | c :: rest => if isSpace c then skipSpace rest else c :: rest
  | [] => []
termination_by p => p.length
decreasing_by all_goals simp_wf <;> omega

/-- ScanUntil: index of the first occurrence of `c` not preceded by a backslash. -/
def scanUntil (data : Bytes) (c : Nat) : Option Nat :=
  let rec go (i : Nat) (prev : Option Nat) : Bytes → Option Nat
    | [] => none
    | x :: xs => if x == c && prev != some 92 then some i else go (i + 1) (some x) xs
  go 0 none data

/-- RemoveByte(data, c), including its quirk (`for i := j+1; i < n;` with n = len(data)-1). -/
def removeByte (data : Bytes) (c : Nat) : Bytes :=
  match data.idxOf? c with
  | none => data
  | some j =>
    let n := data.length - 1
    let rec loop (fuel i : Nat) (acc : Bytes) : Bytes :=
      match fuel with
      | 0 => acc
      | fuel + 1 =>
        if i < n then
          match (data.drop i).idxOf? c with
          | some j' => loop fuel (i + j' + 1) (acc ++ (data.drop i).take j')
          | none => acc ++ data.drop i
        else acc
    (loop (data.length + 1) (j + 1) (data.take j)).take n

structure Scanner where
  rest : Bytes
  err : Bool := false
  deriving Repr

/-- Scanner.Next: the next item, or none at end / on error (err flag set). -/
def Scanner.next (l : Scanner) : Option Item × Scanner :=
  if l.err then (none, l) else
  match skipSpace l.rest with
  | [] => (none, { l with rest := [] })
  | c :: tl =>
    if c == 34 then
      match scanUntil tl 34 with
      | none => (none, { rest := tl, err := true })
      | some n => (some (.str (removeByte (tl.take n) 92)), { rest := tl.drop (n + 1) })
    else if c == 40 then
      -- a comment: every caller in gobwas/ws treats a comment item and a lexer error alike (the
      -- scan fails), so ScanPairGreedy's result is not modelled
      (some (.comment []), { rest := tl, err := true })
    else if c == 92 || c == 41 then (none, { rest := c :: tl, err := true })
    else if isSeparator c then (some (.sep c), { rest := tl })
    else if isToken c then
      let tok := (c :: tl).takeWhile isToken
      (some (.token tok), { rest := (c :: tl).drop tok.length })
    else (none, { rest := c :: tl, err := true })

/-- All items of a header value, and whether the lexer ended in error. -/
def lexAll (data : Bytes) : List Item × Bool :=
  let rec go (fuel : Nat) (l : Scanner) (acc : List Item) : List Item × Bool :=
    match fuel with
    | 0 => (acc.reverse, true)
    | fuel + 1 =>
      match l.next with
      | (none, l') => (acc.reverse, l'.err)
      | (some it, l') => go fuel l' (it :: acc)
  go (data.length + 2) { rest := data } []

/-- ScanTokens(data, it): the tokens handed to `it` in order until it returns false (`stopAt`),
    and the result flag. `it` is given as a predicate "continue?". -/
def scanTokens (data : Bytes) (cont : Bytes → Bool) : List Bytes × Bool :=
  let rec go (fuel : Nat) (l : Scanner) (ok : Bool) (acc : List Bytes) : List Bytes × Bool :=
    match fuel with
    | 0 => (acc.reverse, false)
    | fuel + 1 =>
      match l.next with
      | (none, l') => (acc.reverse, ok && !l'.err)
      | (some (.token t), l') => if cont t then go fuel l' true (t :: acc) else ((t :: acc).reverse, true)
      | (some (.sep c), l') => if c == 44 then go fuel l' ok acc else (acc.reverse, false)
      | (some _, _) => (acc.reverse, false)
  go (data.length + 2) { rest := data } false []

/-- ScanOptions with a callback that always continues: the options parsed (name + ordered
    parameters; a parameter without value has value []), and the result flag.
    (gobwas/ws only ever returns ControlContinue or ControlBreak-on-error from its callbacks.) -/
inductive OState where
  | key | paramBeforeName | paramName | paramBeforeValue | paramValue
  deriving DecidableEq, Repr

structure OAcc where
  state : OState := .key
  index : Nat := 0
  key : Bytes := []
  param : Option Bytes := none
  value : Bytes := []
  mustCall : Bool := false
  ok : Bool := false
  calls : List (Nat × Bytes × Option Bytes × Bytes) := []   -- (index, option, attribute?, value)
  deriving Repr

def OAcc.call (a : OAcc) (grow : Nat) : OAcc :=
  { a with calls := a.calls ++ [(a.index, a.key, a.param, a.value)], ok := true, param := none, value := [],
           mustCall := false, index := a.index + grow }

def scanOptionsCalls (data : Bytes) : List (Nat × Bytes × Option Bytes × Bytes) × Bool :=
  let rec go (fuel : Nat) (l : Scanner) (a : OAcc) : List (Nat × Bytes × Option Bytes × Bytes) × Bool :=
    match fuel with
    | 0 => (a.calls, false)
    | fuel + 1 =>
      match l.next with
      | (none, l') =>
        let a' := if a.mustCall then { a with calls := a.calls ++ [(a.index, a.key, a.param, a.value)], ok := true } else a
        (a'.calls, a'.ok && !l'.err)
      | (some (.token v), l') =>
        match a.state with
        | .key | .paramBeforeName => go fuel l' { a with key := v, state := .paramBeforeName, mustCall := true }
        | .paramName => go fuel l' { a with param := some v, state := .paramBeforeValue, mustCall := true }
        | .paramValue => go fuel l' ({ a with value := v, state := .paramBeforeName }.call 0)
        | _ => (a.calls, false)
      | (some (.str v), l') =>
        if a.state != .paramValue then (a.calls, false)
        else go fuel l' ({ a with value := v, state := .paramBeforeName }.call 0)
      | (some (.sep c), l') =>
        if c == 44 && a.state == .key then go fuel l' a
        else if c == 44 && a.state == .paramBeforeName then
          if a.mustCall then go fuel l' ({ a with state := .key }.call 1)
          else go fuel l' { a with state := .key, index := a.index + 1 }
        else if c == 44 && a.state == .paramBeforeValue then go fuel l' ({ a with state := .key }.call 1)
        else if c == 59 && a.state == .paramBeforeName then go fuel l' { a with state := .paramName }
        else if c == 59 && a.state == .paramBeforeValue then go fuel l' ({ a with state := .paramName }.call 0)
        else if c == 61 && a.state == .paramBeforeValue then go fuel l' { a with state := .paramValue }
        else (a.calls, false)
      | (some (.comment _), _) => (a.calls, false)
  go (data.length + 2) { rest := data } {}

/-- Group ScanOptions callback invocations by option index (what ParseOptions, Select,
    negotiateExtensions and matchSelectedExtensions all do). -/
def groupOptions (calls : List (Nat × Bytes × Option Bytes × Bytes)) : List Opt :=
  calls.foldl (fun (acc : List (Nat × Opt)) (c : Nat × Bytes × Option Bytes × Bytes) =>
    let (idx, name, attr, val) := c
    match acc.reverse with
    | (i, o) :: restRev =>
      if i == idx then
        (restRev.reverse ++ [(i, match attr with | some k => { o with params := o.params ++ [(k, val)] } | none => o)])
      else acc ++ [(idx, ⟨name, match attr with | some k => [(k, val)] | none => []⟩)]
    | [] => [(idx, ⟨name, match attr with | some k => [(k, val)] | none => []⟩)]) []
  |>.map (·.2)

def parseOptions (data : Bytes) : List Opt × Bool :=
  let (calls, ok) := scanOptionsCalls data
  (groupOptions calls, ok)

/-- writeTokenSanitized: nothing is written until quoting starts; `pend` is `bts[pos:i]`. -/
def writeTokenSanitized (bts : Bytes) : Bytes :=
  let rec go (rest : Bytes) (qt : Bool) (out pend : Bytes) : Bytes × Bytes × Bool :=
    match rest with
    | [] => (out, pend, qt)
    | c :: cs =>
      let (out1, qt1) := if !isToken c && !qt then (out ++ [34], true) else (out, qt)
      if isControl c || c == 34 then
        let (out2, qt2) := if !qt1 then (out1 ++ [34], true) else (out1, qt1)
        go cs qt2 (out2 ++ pend ++ [92, c]) []
      else go cs qt1 out1 (pend ++ [c])
  let (out, pend, qt) := go bts false [] []
  if qt then out ++ pend ++ [34] else bts

/-- WriteOptions. -/
def writeOptions (opts : List Opt) : Bytes :=
  (opts.map fun o =>
    writeTokenSanitized o.name ++ (o.params.map fun (k, v) =>
      [59] ++ writeTokenSanitized k ++ (if v.isEmpty then [] else [61] ++ writeTokenSanitized v)).flatten)
  |> List.intersperse [44] |>.flatten

end Ws.Lex
