/-
  M-hdr: frame header codec. Mirrors write.go:WriteHeader/HeaderSize/WriteFrame,
  read.go:ReadHeader/ReadFrame, wsutil/reader.go:Reader.readHeader, frame.go:CompileFrame.
  encoding/binary.BigEndian.{PutUint16,PutUint64,Uint16,Uint64} are stdlib and modelled by their
  arithmetic contract (big-endian base-256 digits).
-/
import WsVerif.Base
namespace Ws

structure Mask where
  m0 : Nat
  m1 : Nat
  m2 : Nat
  m3 : Nat
  deriving DecidableEq, Repr, Inhabited

def Mask.zero : Mask := ⟨0, 0, 0, 0⟩
def Mask.toList (m : Mask) : Bytes := [m.m0, m.m1, m.m2, m.m3]
def Mask.get (m : Mask) (i : Nat) : Nat :=
  match i % 4 with
  | 0 => m.m0
  | 1 => m.m1
  | 2 => m.m2
  | _ => m.m3
def Mask.WF (m : Mask) : Prop := m.m0 < 256 ∧ m.m1 < 256 ∧ m.m2 < 256 ∧ m.m3 < 256
instance (m : Mask) : Decidable m.WF := by unfold Mask.WF; infer_instance

/-- ws.Header. `len` is Go's int64 `Length`; the property's domain is `0 ≤ Length < 2^63`. -/
structure Header where
  fin : Bool
  rsv : Nat
  op : Nat
  masked : Bool
  mask : Mask
  len : Nat
  deriving DecidableEq, Repr, Inhabited

/-- Domain of C01: 3 reserved bits, 4-bit opcode, length in [0, 2^63-1], mask present iff masked. -/
def Header.WF (h : Header) : Prop :=
  h.rsv < 8 ∧ h.op < 16 ∧ h.len < 2 ^ 63 ∧ h.mask.WF ∧ (h.masked = false → h.mask = Mask.zero)
instance (h : Header) : Decidable h.WF := by unfold Header.WF; infer_instance

def len7 : Nat := 125
def len16 : Nat := 65535
def len64 : Nat := 2 ^ 63 - 1
def bit0 : Nat := 0x80

/-- binary.BigEndian.PutUint16 (contract). -/
def putU16 (v : Nat) : Bytes := [v / 256 % 256, v % 256]
/-- binary.BigEndian.PutUint64 (contract). -/
def putU64 (v : Nat) : Bytes :=
  [v / 2 ^ 56 % 256, v / 2 ^ 48 % 256, v / 2 ^ 40 % 256, v / 2 ^ 32 % 256,
   v / 2 ^ 24 % 256, v / 2 ^ 16 % 256, v / 2 ^ 8 % 256, v % 256]
/-- binary.BigEndian.Uint16/Uint64 (contract): value of big-endian digits. -/
def beVal : Bytes → Nat
  | [] => 0
  | b :: bs => b * 256 ^ bs.length + beVal bs

inductive HErr where
  | lengthUnexpected
  deriving DecidableEq, Repr

/-- write.go:HeaderSize. Returns -1 for a length no int64 can hold (unreachable in Go). -/
def headerSize (h : Header) : Int :=
  let n : Int := if h.len < 126 then 2 else if h.len ≤ len16 then 4 else if h.len ≤ len64 then 10 else -1
  if n = -1 then -1 else if h.masked then n + 4 else n

/-- write.go:WriteHeader — the bytes handed to `w.Write`. -/
def writeHeader (h : Header) : Except HErr Bytes :=
  -- bts[0] |= bit0 (if Fin); bts[0] |= h.Rsv << 4; bts[0] |= byte(h.OpCode)
  let b0 := ((if h.fin then bit0 else 0) ||| ((h.rsv <<< 4) % 256)) ||| (h.op % 256)
  let fin (b1 : Nat) (ext : Bytes) : Bytes :=
    if h.masked then b0 :: (b1 ||| bit0) :: (ext ++ h.mask.toList) else b0 :: b1 :: ext
  if h.len ≤ len7 then .ok (fin (h.len % 256) [])
  else if h.len ≤ len16 then .ok (fin 126 (putU16 (h.len % 65536)))
  else if h.len ≤ len64 then .ok (fin 127 (putU64 h.len))
  else .error .lengthUnexpected

inductive HdrErr where
  | io (e : RdErr)
  | lengthMSB
  | lengthUnexpected
  | fault           -- a Go index/slice panic; proved unreachable
  deriving DecidableEq, Repr

def maskOf : Bytes → Option Mask
  | a :: b :: c :: d :: _ => some ⟨a, b, c, d⟩
  | _ => none

/-- First hop of read.go:ReadHeader: the fields held by the two fixed bytes. -/
structure Hdr2 where
  fin : Bool
  rsv : Nat
  op : Nat
  masked : Bool
  length : Nat     -- the 7-bit length code
  deriving DecidableEq, Repr

def hdrFirst (b0 b1 : Nat) : Hdr2 :=
  { fin := b0 &&& bit0 != 0, rsv := (b0 &&& 0x70) >>> 4, op := b0 &&& 0x0f,
    masked := b1 &&& bit0 != 0, length := b1 &&& 0x7f }

/-- `extra`: how many more bytes the second hop reads (`default:` branch = ErrHeaderLengthUnexpected). -/
def hdrExtra (h2 : Hdr2) : Except HdrErr Nat :=
  let e := if h2.masked then 4 else 0
  if h2.length < 126 then .ok e
  else if h2.length = 126 then .ok (e + 2)
  else if h2.length = 127 then .ok (e + 8)
  else .error .lengthUnexpected

/-- Second switch of ReadHeader on the `extra` bytes; index/slice panics are `.fault`. -/
def hdrFinish (h2 : Hdr2) (bts : Bytes) : Except HdrErr Header :=
  let withMask (len : Nat) (rest : Bytes) : Except HdrErr Header :=
    if h2.masked then
      match maskOf rest with
      | some m => .ok ⟨h2.fin, h2.rsv, h2.op, true, m, len⟩
      | none => .error .fault
    else .ok ⟨h2.fin, h2.rsv, h2.op, false, Mask.zero, len⟩
  if h2.length = 126 then
    if bts.length < 2 then .error .fault else withMask (beVal (bts.take 2)) (bts.drop 2)
  else if h2.length = 127 then
    match bts with
    | [] => .error .fault
    | t0 :: _ =>
      if t0 &&& 0x80 != 0 then .error .lengthMSB
      else if bts.length < 8 then .error .fault
      else withMask (beVal (bts.take 8)) (bts.drop 8)
  else withMask h2.length bts

/-- read.go:ReadHeader: two io.ReadFull hops of exactly 2 and `extra` bytes. -/
def readHeaderWs (s : Src) : Except HdrErr Header × Src :=
  match s.readFull 2 with
  | (.error e, s1) => (.error (.io e), s1)
  | (.ok [b0, b1], s1) =>
    let h2 := hdrFirst b0 b1
    match hdrExtra h2 with
    | .error e => (.error e, s1)
    | .ok extra =>
      if extra = 0 then (hdrFinish h2 [], s1)
      else match s1.readFull extra with
        | (.error e, s2) => (.error (.io e), s2)
        | (.ok bts, s2) => (hdrFinish h2 bts, s2)
  | (.ok _, s1) => (.error .fault, s1)

/-! wsutil/reader.go:Reader.readHeader — the duplicate kept in the streaming reader, written out
    separately as in the Go source. -/

def hdrFirstU (b0 b1 : Nat) : Hdr2 :=
  { fin := b0 &&& 0x80 != 0, rsv := (b0 &&& 0x70) >>> 4, op := b0 &&& 0x0f,
    masked := b1 &&& 0x80 != 0, length := b1 &&& 0x7f }

def hdrExtraU (h2 : Hdr2) : Except HdrErr Nat :=
  let e := if h2.masked then 4 else 0
  if h2.length < 126 then .ok e
  else if h2.length = 126 then .ok (e + 2)
  else if h2.length = 127 then .ok (e + 8)
  else .error .lengthUnexpected

def hdrFinishU (h2 : Hdr2) (bts : Bytes) : Except HdrErr Header :=
  let withMask (len : Nat) (rest : Bytes) : Except HdrErr Header :=
    if h2.masked then
      match maskOf rest with
      | some m => .ok ⟨h2.fin, h2.rsv, h2.op, true, m, len⟩
      | none => .error .fault
    else .ok ⟨h2.fin, h2.rsv, h2.op, false, Mask.zero, len⟩
  if h2.length = 126 then
    if bts.length < 2 then .error .fault else withMask (beVal (bts.take 2)) (bts.drop 2)
  else if h2.length = 127 then
    match bts with
    | [] => .error .fault
    | t0 :: _ =>
      if t0 &&& 0x80 != 0 then .error .lengthMSB
      else if bts.length < 8 then .error .fault
      else withMask (beVal (bts.take 8)) (bts.drop 8)
  else withMask h2.length bts

def readHeaderUtil (s : Src) : Except HdrErr Header × Src :=
  match s.readFull 2 with
  | (.error e, s1) => (.error (.io e), s1)
  | (.ok [b0, b1], s1) =>
    let h2 := hdrFirstU b0 b1
    match hdrExtraU h2 with
    | .error e => (.error e, s1)
    | .ok extra =>
      if extra = 0 then (hdrFinishU h2 [], s1)
      else match s1.readFull extra with
        | (.error e, s2) => (.error (.io e), s2)
        | (.ok bts, s2) => (hdrFinishU h2 bts, s2)
  | (.ok _, s1) => (.error .fault, s1)

/-- ws.Frame: header + payload. -/
structure Frame where
  header : Header
  payload : Bytes
  deriving DecidableEq, Repr, Inhabited

/-- write.go:WriteFrame — concatenation of the two `w.Write` calls (no destination error). -/
def writeFrame (f : Frame) : Except HErr Bytes :=
  match writeHeader f.header with
  | .error e => .error e
  | .ok hb => .ok (hb ++ f.payload)

/-- frame.go:CompileFrame = WriteFrame into a bytes.Buffer. -/
def compileFrame (f : Frame) : Except HErr Bytes := writeFrame f

/-- The Go runtime refuses `make([]byte, n)` with a panic ("makeslice: len out of range") when n
    exceeds the address space it manages (maxAlloc = 2^48 on linux/amd64). -/
def maxSliceLen : Nat := 281474976710656

/-- read.go:ReadFrame. `make([]byte, Length)` is modelled as far as it panics (`.fault`); lengths
    it accepts but the machine cannot back are outside the model (see C15). -/
def readFrame (s : Src) : Except HdrErr Frame × Src :=
  match readHeaderWs s with
  | (.error e, s1) => (.error e, s1)
  | (.ok h, s1) =>
    if h.len > maxSliceLen then (.error .fault, s1)
    else if h.len > 0 then
      match s1.readFull h.len with
      | (.error e, s2) => (.error (.io e), s2)
      | (.ok p, s2) => (.ok ⟨h, p⟩, s2)
    else (.ok ⟨h, []⟩, s1)

end Ws
