/-
  M-check: check.go (CheckHeader, CheckCloseFrameData, State), frame.go opcode / status predicates
  and close-body construction, read.go:ParseCloseFrameData. unicode/utf8.ValidString is stdlib and
  is modelled by the Table 3-7 predicate `Spec.wfUtf8`.
-/
import WsVerif.Model.Header
import WsVerif.Spec.Utf8
namespace Ws

def opIsControl (c : Nat) : Bool := c &&& 0x8 != 0
def opIsData (c : Nat) : Bool := c &&& 0x8 == 0
def opIsReserved (c : Nat) : Bool := (decide (0x3 ≤ c) && decide (c ≤ 0x7)) || (decide (0xb ≤ c) && decide (c ≤ 0xf))

def opContinuation : Nat := 0
def opText : Nat := 1
def opBinary : Nat := 2
def opClose : Nat := 8
def opPing : Nat := 9
def opPong : Nat := 10

def stServer : Nat := 1
def stClient : Nat := 2
def stExtended : Nat := 4
def stFragmented : Nat := 8

def stIs (s v : Nat) : Bool := s &&& v != 0
def stSet (s v : Nat) : Nat := s ||| v
def stClear (s v : Nat) : Nat := s &&& (255 - v)

inductive ProtoErr where
  | opCodeReserved | controlPayloadOverflow | controlNotFinal | nonZeroRsv
  | maskRequired | maskUnexpected | continuationExpected | continuationUnexpected
  | statusCodeNotInUse | statusCodeApplicationLevel | statusCodeNoMeaning | statusCodeUnknown | invalidUTF8
  | unexpectedCompressionBit
  deriving DecidableEq, Repr, Inhabited

/-- Name of the Go error variable (and the line-protocol tag). -/
def ProtoErr.goName : ProtoErr → String
  | .opCodeReserved => "ErrProtocolOpCodeReserved"
  | .controlPayloadOverflow => "ErrProtocolControlPayloadOverflow"
  | .controlNotFinal => "ErrProtocolControlNotFinal"
  | .nonZeroRsv => "ErrProtocolNonZeroRsv"
  | .maskRequired => "ErrProtocolMaskRequired"
  | .maskUnexpected => "ErrProtocolMaskUnexpected"
  | .continuationExpected => "ErrProtocolContinuationExpected"
  | .continuationUnexpected => "ErrProtocolContinuationUnexpected"
  | .statusCodeNotInUse => "ErrProtocolStatusCodeNotInUse"
  | .statusCodeApplicationLevel => "ErrProtocolStatusCodeApplicationLevel"
  | .statusCodeNoMeaning => "ErrProtocolStatusCodeNoMeaning"
  | .statusCodeUnknown => "ErrProtocolStatusCodeUnknown"
  | .invalidUTF8 => "ErrProtocolInvalidUTF8"
  | .unexpectedCompressionBit => "ErrUnexpectedCompressionBit"

/-- The Go error text (ProtocolError's string) — becomes the reason of an automatic 1002 reply. -/
def ProtoErr.goText : ProtoErr → String
  | .opCodeReserved => "use of reserved op code"
  | .controlPayloadOverflow => "control frame payload limit exceeded"
  | .controlNotFinal => "control frame is not final"
  | .nonZeroRsv => "non-zero rsv bits with no extension negotiated"
  | .maskRequired => "frames from client to server must be masked"
  | .maskUnexpected => "frames from server to client must be not masked"
  | .continuationExpected => "unexpected non-continuation data frame"
  | .continuationUnexpected => "unexpected continuation data frame"
  | .statusCodeNotInUse => "status code is not in use"
  | .statusCodeApplicationLevel => "status code is only application level"
  | .statusCodeNoMeaning => "status code has no meaning yet"
  | .statusCodeUnknown => "status code is not defined in spec"
  | .invalidUTF8 => "invalid utf8 sequence in close reason"
  | .unexpectedCompressionBit => "control frame or non-first fragment of data contains compression bit set"

def strBytes (s : String) : Bytes := s.toUTF8.toList.map (·.toNat)

def ProtoErr.textBytes (e : ProtoErr) : Bytes := strBytes e.goText

/-- check.go:CheckHeader — ordered cascade returning the first broken rule. -/
def checkHeader (h : Header) (s : Nat) : Option ProtoErr :=
  if opIsReserved h.op then some .opCodeReserved
  else if opIsControl h.op && decide (h.len > 125) then some .controlPayloadOverflow
  else if opIsControl h.op && !h.fin then some .controlNotFinal
  else if h.rsv != 0 && !stIs s stExtended then some .nonZeroRsv
  else if stIs s stServer && !h.masked then some .maskRequired
  else if stIs s stClient && h.masked then some .maskUnexpected
  else if stIs s stFragmented && !opIsControl h.op && h.op != opContinuation then some .continuationExpected
  else if !stIs s stFragmented && h.op == opContinuation then some .continuationUnexpected
  else none

def codeIn (c lo hi : Nat) : Bool := decide (lo ≤ c) && decide (c ≤ hi)
def codeIsNotUsed (c : Nat) : Bool := codeIn c 0 999
def codeIsProtocolSpec (c : Nat) : Bool := codeIn c 1000 2999
def codeIsApplicationSpec (c : Nat) : Bool := codeIn c 3000 3999
def codeIsPrivateSpec (c : Nat) : Bool := codeIn c 4000 4999
def codeIsProtocolDefined (c : Nat) : Bool :=
  c == 1000 || c == 1001 || c == 1002 || c == 1003 || c == 1007 || c == 1008 || c == 1009 || c == 1010
    || c == 1011 || c == 1005 || c == 1006 || c == 1015
def codeIsProtocolReserved (c : Nat) : Bool := c == 1005 || c == 1006 || c == 1015

/-- check.go:CheckCloseFrameData with the UTF-8 verdict on the reason as a parameter. -/
def checkCloseWith (validReason : Bool) (code : Nat) : Option ProtoErr :=
  if codeIsNotUsed code then some .statusCodeNotInUse
  else if codeIsProtocolReserved code then some .statusCodeApplicationLevel
  else if code == 1004 then some .statusCodeNoMeaning
  else if codeIsProtocolSpec code && !codeIsProtocolDefined code then some .statusCodeUnknown
  else if !validReason then some .invalidUTF8
  else none

def checkCloseFrameData (code : Nat) (reason : Bytes) : Option ProtoErr :=
  checkCloseWith (Spec.wfUtf8 reason) code

def maxControlFramePayloadSize : Nat := 125

/-- frame.go:PutCloseFrameBody — `none` when `_ = p[1+len(reason)]` panics. -/
def putCloseFrameBody (p : Bytes) (code : Nat) (reason : Bytes) : Option Bytes :=
  if p.length < 2 + reason.length then none
  else some (putU16 (code % 65536) ++ reason ++ p.drop (2 + reason.length))

/-- frame.go:NewCloseFrameBody. -/
def newCloseFrameBody (code : Nat) (reason : Bytes) : Option Bytes :=
  let n := min (2 + reason.length) maxControlFramePayloadSize
  let crop := min (maxControlFramePayloadSize - 2) reason.length
  putCloseFrameBody (List.replicate n 0) code (reason.take crop)

/-- read.go:ParseCloseFrameData(Unsafe). -/
def parseCloseFrameData (payload : Bytes) : Nat × Bytes :=
  if payload.length < 2 then (0, []) else (beVal (payload.take 2), payload.drop 2)

end Ws
