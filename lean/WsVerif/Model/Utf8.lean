/-
  M-utf8: wsutil/utf8.go — Hoehrmann DFA table, decode step, UTF8Reader.
  The table literal below is the model's copy; Bridge.C07 proves it equal to the table regenerated
  from /repo's source on every run, and Props.C07 checks all 9x256 transitions against Table 3-7.
  `codep` (the decoded code point) is not observable through the API and is not modelled.
-/
import WsVerif.Base
namespace Ws

def utf8Accept : Nat := 0
def utf8Reject : Nat := 12

def utf8d : List Nat := [
   0, 0, 0, 0, 0, 0, 0, 0, 0, 0, 0, 0, 0, 0, 0, 0, 0, 0, 0, 0, 0, 0, 0, 0, 0, 0, 0, 0, 0, 0, 0, 0,
   0, 0, 0, 0, 0, 0, 0, 0, 0, 0, 0, 0, 0, 0, 0, 0, 0, 0, 0, 0, 0, 0, 0, 0, 0, 0, 0, 0, 0, 0, 0, 0,
   0, 0, 0, 0, 0, 0, 0, 0, 0, 0, 0, 0, 0, 0, 0, 0, 0, 0, 0, 0, 0, 0, 0, 0, 0, 0, 0, 0, 0, 0, 0, 0,
   0, 0, 0, 0, 0, 0, 0, 0, 0, 0, 0, 0, 0, 0, 0, 0, 0, 0, 0, 0, 0, 0, 0, 0, 0, 0, 0, 0, 0, 0, 0, 0,
   1, 1, 1, 1, 1, 1, 1, 1, 1, 1, 1, 1, 1, 1, 1, 1, 9, 9, 9, 9, 9, 9, 9, 9, 9, 9, 9, 9, 9, 9, 9, 9,
   7, 7, 7, 7, 7, 7, 7, 7, 7, 7, 7, 7, 7, 7, 7, 7, 7, 7, 7, 7, 7, 7, 7, 7, 7, 7, 7, 7, 7, 7, 7, 7,
   8, 8, 2, 2, 2, 2, 2, 2, 2, 2, 2, 2, 2, 2, 2, 2, 2, 2, 2, 2, 2, 2, 2, 2, 2, 2, 2, 2, 2, 2, 2, 2,
   10, 3, 3, 3, 3, 3, 3, 3, 3, 3, 3, 3, 3, 4, 3, 3, 11, 6, 6, 6, 5, 8, 8, 8, 8, 8, 8, 8, 8, 8, 8, 8,
   0, 12, 24, 36, 60, 96, 84, 12, 12, 12, 48, 72, 12, 12, 12, 12, 12, 12, 12, 12, 12, 12, 12, 12, 12, 0, 12, 12, 12, 12, 12, 0,
   12, 0, 12, 12, 12, 24, 12, 12, 12, 12, 12, 24, 12, 24, 12, 12, 12, 12, 12, 12, 12, 12, 12, 24, 12, 12, 12, 12, 12, 24, 12, 12,
   12, 12, 12, 12, 12, 24, 12, 12, 12, 12, 12, 12, 12, 12, 12, 36, 12, 36, 12, 12, 12, 36, 12, 12, 12, 12, 12, 36, 12, 36, 12, 12,
   12, 36, 12, 12, 12, 12, 12, 12, 12, 12, 12, 12
]

/-- utf8.go:decode, state component: `utf8d[256 + state + utf8d[b]]`. `none` = index out of range
    (a Go panic). -/
def utf8Step (state b : Nat) : Option Nat :=
  match utf8d[b]? with
  | none => none
  | some t => utf8d[256 + state + t]?

/-- wsutil.UTF8Reader state: DFA state and `accepted` (valid bytes in the last Read). -/
structure Utf8Rd where
  state : Nat := 0
  accepted : Nat := 0
  deriving DecidableEq, Repr, Inhabited

/-- The loop of UTF8Reader.Read over the `n` bytes just read. Returns (reported n, invalid?, new
    reader); `none` = panic. On reject the reader keeps only the reject state (as the Go code does:
    `u.state = s; return accepted, ErrInvalidUTF8`). -/
def Utf8Rd.feed (u : Utf8Rd) (p : Bytes) : Option (Nat × Bool × Utf8Rd) :=
  go u.state 0 0 p
where
  go (s acc i : Nat) : Bytes → Option (Nat × Bool × Utf8Rd)
    | [] => some (i, false, { state := s, accepted := acc })
    | b :: rest =>
      match utf8Step s b with
      | none => none
      | some s' =>
        if s' = utf8Reject then some (acc, true, { u with state := s' })
        else go s' (if s' = utf8Accept then i + 1 else acc) (i + 1) rest

/-- UTF8Reader.Read(p), len p = k: one read of the source, then the validation loop. Returns the
    reported byte count, whether ErrInvalidUTF8 is returned, else the source's end, and new states. -/
def Utf8Rd.read (u : Utf8Rd) (s : Src) (k : Nat) : Option (Nat × Bool × Option Fin × Utf8Rd × Src) :=
  let (got, e, s') := s.read k
  match u.feed got with
  | none => none
  | some (n, bad, u') => some (n, bad, if bad then none else e, u', s')

def Utf8Rd.valid (u : Utf8Rd) : Bool := u.state == utf8Accept

end Ws
