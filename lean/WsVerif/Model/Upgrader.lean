/-
  M-srv: server.go — Upgrader.Upgrade (zero-copy, over bufio) and HTTPUpgrader.Upgrade (on the
  request net/http parsed). Callbacks are data: what they accept and how they reject.
-/
import WsVerif.Model.Http
namespace Ws
open Ws.Lex

/-- What a user callback answers: accept, or reject with a ConnectionRejectedError / plain error. -/
abbrev CbRej := Option HsErr

structure UpCfg where
  readBuf : Nat := 0
  protocols : Option (List Bytes) := none     -- Protocol = SelectFromSlice(list)
  negotiate : Option Params := none           -- Negotiate = (&wsflate.Extension{Parameters}).Negotiate
  extension : Option (List Bytes) := none     -- deprecated Extension: accept these names
  header : Bytes := []                        -- Header (HandshakeHeaderString / http.Header bytes)
  onRequest : CbRej := none
  onHost : CbRej := none
  onHeaderKey : Bytes := []                   -- OnHeader rejects headers with this (canonical) key
  onHeader : CbRej := none
  onBeforeUpgrade : Option (Sum Bytes HsErr) := none   -- extra header or rejection
  deriving Repr

structure Handshake where
  protocol : Bytes := []
  extensions : List Opt := []
  deriving DecidableEq, Repr, Inhabited

inductive UpErr where
  | io (f : Fin)            -- transport ended / failed: nothing is written
  | hs (e : HsErr)
  deriving DecidableEq, Repr

/-- http.go:btsSelectProtocol with check = membership in `accept`. -/
def selectProtocol (v : Bytes) (accept : List Bytes) : Bytes × Bool :=
  let (toks, ok) := scanTokens v (fun t => !accept.contains t)
  match toks.getLast? with
  | some t => if accept.contains t then (t, true) else ([], ok)
  | none => ([], ok)

def perrText (e : PErr) : Bytes :=
  let q (b : Bytes) : Bytes := [34] ++ b ++ [34]
  match e with
  | .duplicate k => strBytes "wsflate: duplicate extension parameter " ++ q k
  | .invalid k => strBytes "wsflate: invalid extension parameter " ++ q k
  | .unexpected k => strBytes "wsflate: unexpected extension parameter " ++ q k

/-- http.go:negotiateExtensions with f = wsflate Extension.Negotiate: returns the new list, the
    negotiator state and the error. The wsflate error text also quotes the value; `valOf` finds it. -/
def negotiateExtensions (v : Bytes) (dest : List Opt) (cfg : Params) (st : NegSt) :
    Except HsErr (List Opt) × NegSt :=
  let (calls, ok) := scanOptionsCalls v
  let opts := groupOptions calls
  let rec go (os : List Opt) (dest : List Opt) (st : NegSt) : Except HsErr (List Opt) × NegSt :=
    match os with
    | [] => (.ok dest, st)
    | o :: rest =>
      match negotiate cfg st o with
      | (.error e, st') =>
        let key := match e with | .duplicate k => k | .invalid k => k | .unexpected k => k
        -- the value reported is that of the offending occurrence: the last one with this key for
        -- duplicates, the first ill-valued one otherwise — approximated by the harness-visible text
        let val := match e with
          | .duplicate _ => ((o.params.filter (·.1 == key)).getD 1 ([], [])).2
          | _ => ((o.params.filter (·.1 == key)).headD ([], [])).2
        (.error ⟨"wsflate", 0, perrText e ++ strBytes ": " ++ [34] ++ val ++ [34], []⟩, st')
      | (.accept a, st') => go rest (dest ++ [a]) st'
      | (.none_, st') => go rest dest st'
      | (.panic, st') => (.error ⟨"PANIC", 0, [], []⟩, st')
  match go opts dest st with
  | (.error e, st') => (.error e, st')
  | (.ok d, st') => if ok then (.ok d, st') else (.error errMalformedRequest, st')

/-- httphead.OptionSelector{Flags: SelectCopy, Check: name ∈ accept}.Select. -/
def selectExtensions (v : Bytes) (dest : List Opt) (accept : List Bytes) : List Opt × Bool :=
  let (opts, ok) := parseOptions v
  (dest ++ opts.filter (fun o => accept.contains o.name), ok)

structure UpState where
  hs : Handshake := {}
  seen : Nat := 0              -- headerSeen bit set
  nonce : Bytes := List.replicate 24 0
  neg : NegSt := {}
  deriving Repr

def seenHost : Nat := 1
def seenUpgrade : Nat := 2
def seenConnection : Nat := 4
def seenSecVersion : Nat := 8
def seenSecKey : Nat := 16
def seenAll : Nat := 31

/-- One header line of the read/parse loop. -/
def upHeader (cfg : UpCfg) (st : UpState) (k v : Bytes) : UpState × Option HsErr :=
  if k = strBytes "Host" then ({ st with seen := st.seen ||| seenHost }, cfg.onHost)
  else if k = strBytes "Upgrade" then
    ({ st with seen := st.seen ||| seenUpgrade }, if equalFold v (strBytes "websocket") then none else some errBadUpgrade)
  else if k = strBytes "Connection" then
    ({ st with seen := st.seen ||| seenConnection },
      if v = strBytes "Upgrade" || btsHasToken v (strBytes "upgrade") then none else some errBadConnection)
  else if k = strBytes "Sec-Websocket-Version" then
    ({ st with seen := st.seen ||| seenSecVersion }, if v = strBytes "13" then none else some errUpgradeRequired)
  else if k = strBytes "Sec-Websocket-Key" then
    if v.length ≠ 24 then ({ st with seen := st.seen ||| seenSecKey }, some errBadSecKey)
    else ({ st with seen := st.seen ||| seenSecKey, nonce := v }, none)
  else if k = strBytes "Sec-Websocket-Protocol" then
    match cfg.protocols with
    | some accept =>
      if st.hs.protocol.isEmpty then
        let (p, ok) := selectProtocol v accept
        ({ st with hs := { st.hs with protocol := p } }, if ok then none else some errMalformedRequest)
      else (st, none)
    | none => (st, none)
  else if k = strBytes "Sec-Websocket-Extensions" then
    match cfg.negotiate with
    | some ncfg =>
      match negotiateExtensions v st.hs.extensions ncfg st.neg with
      | (.ok xs, ng) => ({ st with hs := { st.hs with extensions := xs }, neg := ng }, none)
      | (.error e, ng) => ({ st with hs := { st.hs with extensions := [] }, neg := ng }, some e)
    | none =>
      match cfg.extension with
      | some accept =>
        let (xs, ok) := selectExtensions v st.hs.extensions accept
        ({ st with hs := { st.hs with extensions := xs } }, if ok then none else some errMalformedRequest)
      | none => (st, none)
  else (st, if k = cfg.onHeaderKey then cfg.onHeader else none)

/-- The read/parse loop over header lines: transport failure (left) or end of the head / error. -/
def hdrLoop (cfg : UpCfg) : Nat → Bufio → UpState → Option HsErr →
    Sum (Fin × Bufio × UpState) (UpState × Option HsErr × Bufio)
  | 0, b, st, _ => .inr (st, some ⟨"FUEL", 0, [], []⟩, b)
  | fuel + 1, b, st, err =>
    if err.isSome then .inr (st, err, b)
    else match readLine b with
      | (_, some f, b') => .inl (f, b', st)
      | (line, none, b') =>
        if line.isEmpty then .inr (st, none, b')
        else match httpParseHeaderLine line with
          | none => .inr (st, some errMalformedRequest, b')
          | some (k, v) => hdrLoop cfg fuel b' (upHeader cfg st k v).1 (upHeader cfg st k v).2

/-- The decision after the head: missing headers, OnBeforeUpgrade. Error and extra header bytes. -/
def upFinish (cfg : UpCfg) (st : UpState) (err : Option HsErr) : Option HsErr × Bytes :=
  match err with
  | some e => (some e, [])
  | none =>
    if st.seen ≠ seenAll then
      (some (if st.seen &&& seenHost = 0 then errBadHost
             else if st.seen &&& seenUpgrade = 0 then errBadUpgrade
             else if st.seen &&& seenConnection = 0 then errBadConnection
             else if st.seen &&& seenSecVersion = 0 then errBadSecVersion
             else errBadSecKey), [])
    else match cfg.onBeforeUpgrade with
      | some (.inl h) => (none, h)
      | some (.inr e) => (some e, [])
      | none => (none, [])

/-- The request-line decision (before any header is read). -/
def upRequestLine (cfg : UpCfg) (method : Bytes) (major minor : Nat) : Option HsErr :=
  if major ≠ 1 ∨ minor < 1 then some errBadProtocol
  else if method ≠ strBytes "GET" then some errBadMethod
  else cfg.onRequest

/-- Upgrader.Upgrade: (handshake, error, bytes written to the connection, bufio afterwards). -/
def upgrade (cfg : UpCfg) (src : Src) : Handshake × Option UpErr × Bytes × Bufio :=
  let b0 : Bufio := { cap := max 16 (if cfg.readBuf = 0 then 4096 else cfg.readBuf), src }
  match readLine b0 with
  | (_, some f, b1) => ({}, some (.io f), [], b1)
  | (rl, none, b1) =>
    match httpParseVersion (bsplit3 rl 32).2.2 with
    | none => ({}, some (.hs errMalformedRequest), [], b1)
    | some (major, minor) =>
      match hdrLoop cfg (src.bytes.length + 4) b1 {} (upRequestLine cfg (bsplit3 rl 32).1 major minor) with
      | .inl (f, b', st) => (st.hs, some (.io f), [], b')
      | .inr (st, err, b') =>
        match upFinish cfg st err with
        | (some e, _) => (st.hs, some (.hs e), writeResponseError e cfg.header, b')
        | (none, extra) =>
          (st.hs, none, writeResponseUpgrade st.nonce st.hs.protocol st.hs.extensions cfg.header extra, b')

/-- What net/http hands to HTTPUpgrader: method, protocol version, Host and the (canonical-key)
    header map restricted to the handshake headers. -/
structure AReq where
  method : Bytes
  major : Nat
  minor : Nat
  host : Bytes
  headers : List (Bytes × List Bytes)
  deriving Repr

def AReq.get (r : AReq) (k : String) : List Bytes := ((r.headers.find? (·.1 == strBytes k)).map (·.2)).getD []
def AReq.first (r : AReq) (k : String) : Bytes := (r.get k).headD []

/-- The built-in checks of HTTPUpgrader.Upgrade, in order. -/
def httpErr0 (r : AReq) : Option HsErr :=
  if r.method ≠ strBytes "GET" then some errBadMethod
  else if r.major ≠ 1 ∨ r.minor < 1 then some errBadProtocol
  else if r.host.isEmpty then some errBadHost
  else if !equalFold (r.first "Upgrade") (strBytes "websocket") then some errBadUpgrade
  else if !(r.first "Connection" = strBytes "Upgrade" || btsHasToken (r.first "Connection") (strBytes "upgrade")) then some errBadConnection
  else if (r.first "Sec-Websocket-Key").length ≠ 24 then some errBadSecKey
  else if r.first "Sec-Websocket-Version" ≠ strBytes "13" then
    some (if (r.first "Sec-Websocket-Version").isEmpty then errBadSecVersion else errUpgradeRequired)
  else none

/-- Subprotocol selection over the Sec-WebSocket-Protocol values. -/
def httpProto (accept : List Bytes) (r : AReq) : Bytes × Option HsErr :=
  (r.get "Sec-Websocket-Protocol").foldl (fun (acc : Bytes × Option HsErr) v =>
    if acc.2.isSome || !acc.1.isEmpty then acc
    else ((selectProtocol v accept).1, if (selectProtocol v accept).2 then none else some errMalformedRequest)) ([], none)

/-- Extension negotiation / selection over the Sec-WebSocket-Extensions values. -/
def httpExts (cfg : UpCfg) (r : AReq) : List Opt × Option HsErr :=
  match cfg.negotiate with
  | some ncfg =>
    let res := (r.get "Sec-Websocket-Extensions").foldl (fun (acc : List Opt × Option HsErr × NegSt) v =>
      if acc.2.1.isSome then acc
      else match negotiateExtensions v acc.1 ncfg acc.2.2 with
        | (.ok xs, ng) => (xs, none, ng)
        | (.error e, ng) => ([], some e, ng)) ([], none, {})
    (res.1, res.2.1)
  | none =>
    match cfg.extension with
    | some accept =>
      (r.get "Sec-Websocket-Extensions").foldl (fun (acc : List Opt × Option HsErr) v =>
        if acc.2.isSome then acc
        else ((selectExtensions v acc.1 accept).1,
              if (selectExtensions v acc.1 accept).2 then none else some errMalformedRequest)) ([], none)
    | none => ([], none)

/-- HTTPUpgrader.Upgrade (hijack succeeded): handshake, error, bytes written. -/
def httpUpgrade (cfg : UpCfg) (r : AReq) : Handshake × Option HsErr × Bytes :=
  match httpErr0 r with
  | some e => ({}, some e, writeResponseError e [])
  | none =>
    let pe : Bytes × Option HsErr := match cfg.protocols with
      | some accept => httpProto accept r
      | none => ([], none)
    match pe.2 with
    | some e => ({ protocol := pe.1 }, some e, writeResponseError e [])
    | none =>
      match (httpExts cfg r).2 with
      | some e => ({ protocol := pe.1, extensions := (httpExts cfg r).1 }, some e, writeResponseError e [])
      | none => ({ protocol := pe.1, extensions := (httpExts cfg r).1 }, none,
                 writeResponseUpgrade (r.first "Sec-Websocket-Key") pe.1 (httpExts cfg r).1 [] [])

end Ws
