/-
  M-flate: wsflate/cbuf.go (cbuf, suffixedReader), wsflate/writer.go (Writer around an abstract
  Compressor), wsflate/reader.go (Reader around an abstract Decompressor).
  The (de)compressor itself — compress/flate or any user-supplied one — is a PARAMETER:
  for the writer it is the sequence of byte chunks it hands to its destination, for the reader it
  is a function of the byte stream it is given (Spec/Inflate.lean is the contract assumed of
  flate.NewReader).
-/
import WsVerif.Model.Writer
import WsVerif.Spec.Inflate
namespace Ws

def compressionTail : Bytes := [0, 0, 255, 255]
def compressionReadTail : Bytes := [0, 0, 255, 255, 1, 0, 0, 255, 255]

/-- cbuf: the last (up to) four bytes are withheld; `failed` = c.err != nil. -/
structure CBuf where
  buf : Bytes := []           -- c.buf[:c.n]
  dst : Dst := {}
  failed : Bool := false
  deriving DecidableEq, Repr, Inhabited

def CBuf.flush (c : CBuf) (p : Bytes) : CBuf :=
  if c.failed then c else
  let (ok, d) := c.dst.write p
  { c with dst := d, failed := !ok }

/-- cbuf.Write: returns whether it reported success. -/
def CBuf.write (c : CBuf) (p : Bytes) : Bool × CBuf :=
  if c.failed then (false, c) else
  let head := if p.length > 4 then p.take (p.length - 4) else []
  let tail := if p.length > 4 then p.drop (p.length - 4) else p
  let n := c.buf.length + tail.length
  let c1 := if n > 4 then { (c.flush (c.buf.take (n - 4))) with buf := c.buf.drop (n - 4) } else c
  let c2 := if head.length > 0 then c1.flush head else c1
  let c3 := { c2 with buf := c2.buf ++ tail }
  (!c3.failed, c3)

/-- Writer.checkTail's comparison `w.cbuf.buf != compressionTail` on the 4-byte array. -/
def CBuf.tailOk (c : CBuf) : Bool := (c.buf ++ List.replicate (4 - c.buf.length) 0) == compressionTail

inductive FlErr where
  | dst            -- the destination failed
  | badTail        -- "wsflate: bad compressor: unexpected stream tail"
  | comp           -- the compressor itself reported an error
  deriving DecidableEq, Repr

/-- wsflate.Writer with the compressor's behaviour supplied per call: the chunks it writes. -/
structure FlWr where
  cbuf : CBuf := {}
  err : Option FlErr := none
  deriving DecidableEq, Repr, Inhabited

/-- the compressor writes `chunks` to the cbuf, stopping at the first failure -/
def FlWr.feed (w : FlWr) (chunks : List Bytes) : Bool × CBuf :=
  chunks.foldl (fun (acc : Bool × CBuf) ch => if !acc.1 then acc else acc.2.write ch) (true, w.cbuf)

/-- Writer.Write(p): the compressor turns p into `chunks` (possibly none). -/
def FlWr.write (w : FlWr) (chunks : List Bytes) : Option FlErr × FlWr :=
  match w.err with
  | some e => (some e, w)
  | none =>
    let (ok, c) := w.feed chunks
    let e := if ok then none else some FlErr.dst
    (e, { cbuf := c, err := e })

/-- Writer.Flush / Writer.Close: the compressor emits `chunks`, then the tail is checked. -/
def FlWr.flush (w : FlWr) (chunks : List Bytes) : Option FlErr × FlWr :=
  match w.err with
  | some e => (some e, w)
  | none =>
    let (ok, c) := w.feed chunks
    let e := if !ok then some FlErr.dst else if c.tailOk then none else some FlErr.badTail
    (e, { cbuf := c, err := e })

/-- Writer.Reset(dest). -/
def FlWr.reset (_ : FlWr) (d : Dst) : FlWr := { cbuf := { dst := d } }

/-! ### suffixedReader -/

structure SufRd where
  src : Option Src             -- r.r (nil once the source reported io.EOF)
  pos : Nat := 0
  deriving Repr, Inhabited

/-- suffixedReader.Read(p) with len p = k. A source failure other than EOF is passed on. -/
def SufRd.read (r : SufRd) (k : Nat) : Bytes × Option Fin × SufRd :=
  match r.src with
  | some s =>
    let (got, e, s') := s.read k
    match e with
    | some .eof => (got, none, { r with src := none })
    | some .fail => (got, some .fail, { r with src := some s' })
    | none => (got, none, { r with src := some s' })
  | none =>
    if r.pos ≥ 9 then ([], some .eof, r)
    else
      let got := (compressionReadTail.drop r.pos).take k
      (got, none, { r with pos := r.pos + got.length })

/-- Everything a suffixedReader will still deliver. -/
def SufRd.all (r : SufRd) : Bytes :=
  (match r.src with | some s => s.bytes | none => []) ++ compressionReadTail.drop r.pos

/-- Read with the given sizes until EOF / failure / the sizes run out. -/
def SufRd.drain (r : SufRd) : List Nat → Bytes × Option Fin
  | [] => ([], none)
  | k :: ks =>
    match r.read k with
    | (got, some e, _) => (got, some e)
    | (got, none, r') => let (rest, e) := r'.drain ks; (got ++ rest, e)

/-- wsflate.Reader over flate.NewReader, by contract: the message is the inflation of the source
    followed by the 9-byte tail. -/
def flRead (compressed : Bytes) : Bytes × Spec.InflateEnd := Spec.inflate (compressed ++ compressionReadTail)

end Ws
