/- Hand-written: external (stdlib) functions the translated code calls, modelled by their contract. -/
import WsVerif.Base
namespace Gen.Ext
/-- unicode/utf8.ValidString — abstract here; Bridge instantiates it with the Table 3-7 predicate. -/
opaque utf8_ValidString : Ws.Bytes → Bool
end Gen.Ext
