/-
  The message reader with an OnIntermediate handler that reads the whole control payload and records
  it (what wsutil.ReadMessage installs; wsutil.ControlFrameHandler reads it the same way before it
  answers): stream-level argument with the handler's log threaded through.
-/
import WsVerif.Proofs.Reader
import WsVerif.Model.Helper
namespace Ws.RdCb
open Ws Ws.Spec Ws.RdProof

theorem wf_drop {a b : Bytes} (g : Nat) (h : Bytes.WF (a ++ b)) : Bytes.WF (a.drop g ++ b) := by
  intro x hx
  rcases List.mem_append.mp hx with h1 | h1
  · exact h x (List.mem_append.mpr (Or.inl (List.mem_of_mem_drop h1)))
  · exact h x (List.mem_append.mpr (Or.inr h1))

theorem adv_zero (r : Rd) : adv r 0 = r := by cases r; simp [adv]
theorem adv_adv (r : Rd) (a b : Nat) : adv (adv r a) b = adv r (a + b) := by
  cases r; simp only [adv]; split <;> simp [Nat.sub_sub, Nat.add_assoc]

/-- Draining a frame through the frame stack, read by read (io.Copy / ReadAll over the handler's
    reader): the chunks are the unmasked payload, the stack ends at the frame's end with io.EOF. -/
theorem pull_frame : ∀ (fuel : Nat) (r : Rd) (s : Src) (cx : Ctx) (wire rest : Bytes) (k : Nat) (acc : List Bytes),
    InFrame0 r s wire rest → 0 < k → mu s + 1 < fuel →
    ∃ chunks s', Rd.pull false k none fuel r s cx acc = (acc.reverse ++ chunks, .eof, adv r wire.length, s', cx)
      ∧ chunks.flatten = plainOf r wire ∧ s'.bytes = rest ∧ Src.Tame s' ∧ mu s' ≤ mu s := by
  intro fuel
  induction fuel with
  | zero => intro r s cx wire rest k acc _ _ h; omega
  | succ n ih =>
    intro r s cx wire rest k acc hin hk hf
    unfold Rd.pull
    simp only [Bool.false_eq_true, if_false]
    by_cases hz : wire.length = 0
    · have hw : wire = [] := List.length_eq_zero_iff.mp hz
      subst hw
      have h0 : r.rawN = 0 := by rw [hin.n]; rfl
      rw [frameRead_done r s k h0 hin.noU hin.mwf]
      simp only [if_true]
      refine ⟨[], s, by simp [adv_zero], by unfold plainOf xorSpec; split <;> simp, by simpa using hin.bytes, hin.tame, Nat.le_refl _⟩
    · obtain ⟨g, e, s1, hfr, hg, hb1, hmu1, ht1, hlt, hee⟩ :=
        frameRead_inframe0 r s wire rest k hin hk (Nat.pos_of_ne_zero hz)
      rw [hfr]
      simp only
      have hpl : (plainOf r (wire.take g)).take g = plainOf r (wire.take g) := by
        apply List.take_of_length_le; rw [plainOf_length, List.length_take]; omega
      have hwf1 : Bytes.WF s1.bytes := by rw [hb1]; have := hin.wf; rw [hin.bytes] at this; exact wf_drop g this
      have hin1 : InFrame0 (adv r g) s1 (wire.drop g) rest :=
        ⟨by simp [adv, hin.noU], hb1, by simp [adv, hin.n], hwf1, by simp [adv]; exact hin.mwf, ht1⟩
      rcases hee with he | he
      · subst he
        simp only
        obtain ⟨chunks, s', h1, h2, h3, h4, h5⟩ := ih (adv r g) s1 cx (wire.drop g) rest k
          (if g = 0 then acc else (plainOf r (wire.take g)).take g :: acc) hin1 hk (by omega)
        rw [h1]
        by_cases hg0 : g = 0
        · subst hg0
          simp only [if_true] at h1 ⊢
          refine ⟨chunks, s', by simp [adv_adv], ?_, h3, h4, by omega⟩
          rw [h2]; simp [adv_zero]
        · simp only [hg0, if_false, hpl, List.reverse_cons, List.append_assoc, List.singleton_append]
          refine ⟨plainOf r (wire.take g) :: chunks, s', ?_, ?_, h3, h4, by omega⟩
          · rw [adv_adv, List.length_drop]
            have : g + (wire.length - g) = wire.length := by omega
            rw [this]
          · simp only [List.flatten_cons, h2]
            exact plainOf_split r wire g hg
      · subst he
        simp only
        have hgl : g = wire.length := by
          by_cases hne : g = wire.length
          · exact hne
          · have := hlt (by omega)
            cases this
        subst hgl
        by_cases hg0 : wire.length = 0
        · exact absurd hg0 hz
        · simp only [hg0, if_false, hpl, List.reverse_cons, List.append_assoc, List.singleton_append]
          refine ⟨[plainOf r (wire.take wire.length)], s1, rfl, by simp [List.take_length], ?_, ht1, by omega⟩
          rw [hb1]; simp

/-- the OnIntermediate handler wsutil.ReadMessage installs: read the control payload to its end, append
    (opcode, payload) to the message list -/
def collect : Callback := fun h r s cx =>
  let (chunks, e, r', s', cx') := Rd.pull false 512 none (pullFuel s) r s cx []
  if e = .eof then ⟨none, r', s', { cx' with msgs := cx'.msgs ++ [(h.op, chunks.flatten)] }⟩
  else ⟨some e, r', s', cx'⟩

def logMsg (h : Header) (p : Bytes) (cx : Ctx) : Ctx := { cx with msgs := cx.msgs ++ [(h.op, p)] }

/-- the reader after an intermediate control frame went through `collect` -/
def afterCtl (r : Rd) (h : Header) (n : Nat) : Rd :=
  { r with rawN := 0, masked := h.masked, mask := h.mask, cpos := if h.masked then n else 0, utf8on := false }

/-- NextFrame on an interleaved control frame with the collecting handler: the handler is given
    exactly the frame's unmasked payload, the reader stands behind the frame. -/
theorem nextFrame_ctl_collect (r : Rd) (s s1 : Src) (cx : Ctx) (f : WFrame) (tail : Bytes)
    (hh : readHeaderUtil s = (.ok f.h, s1)) (ha : Accepts r f.h) (hext : r.ext = false)
    (hctl : opIsControl f.h.op = true) (hfrag : r.fragmented = true)
    (hb : s1.bytes = f.wire ++ tail) (hok : f.OK) (hwf : Bytes.WF s1.bytes) (htame : Src.Tame s1) :
    ∃ s3, r.nextFrame s cx (some collect) = (some f.h, none, afterCtl r f.h f.wire.length, s3, logMsg f.h f.plain cx)
      ∧ s3.bytes = tail ∧ Src.Tame s3 ∧ mu s3 ≤ mu s1 := by
  unfold Rd.nextFrame
  simp only [hh, ha.1, ha.2, if_false, hext, Bool.false_eq_true]
  have hfr : ({ r with ext := false, rawN := f.h.len, masked := f.h.masked, mask := f.h.mask, cpos := 0, utf8on := false } : Rd).fragmented = true := by
    simpa [Rd.fragmented] using hfrag
  simp only [hfr, hctl, Bool.and_self, if_true]
  -- the handler
  have hin : InFrame0 ({ r with ext := false, rawN := f.h.len, masked := f.h.masked, mask := f.h.mask, cpos := 0, utf8on := false } : Rd)
      s1 f.wire tail := ⟨rfl, hb, by simp [hok.len], hwf, hok.mwf, htame⟩
  obtain ⟨chunks, s2, hp, hfl, hb2, ht2, hmu2⟩ := pull_frame (pullFuel s1) _ s1 cx f.wire tail 512 [] hin (by decide)
    (by unfold pullFuel Src.fuel mu; omega)
  have hpl : plainOf ({ r with ext := false, rawN := f.h.len, masked := f.h.masked, mask := f.h.mask, cpos := 0, utf8on := false } : Rd) f.wire
      = f.plain := rfl
  simp only [collect, hp, List.reverse_nil, List.nil_append, if_true]
  -- nothing is left to drain
  obtain ⟨s3, hd, hb3, ht3, hmu3, _⟩ := drainRaw_ok s2.fuel
    (adv ({ r with ext := false, rawN := f.h.len, masked := f.h.masked, mask := f.h.mask, cpos := 0, utf8on := false } : Rd) f.wire.length)
    s2 [] tail (by simpa using hb2) (by simp [adv, hok.len]) ht2 (by unfold Src.fuel mu; omega)
  refine ⟨s3, ?_, hb3, ht3, by omega⟩
  rw [hd, hfl, hpl]
  simp only [logMsg, afterCtl, adv, hext]
  cases hm : f.h.masked <;> simp [hok.len]

end Ws.RdCb
