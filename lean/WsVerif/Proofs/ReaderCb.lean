/-
  The message reader with an OnIntermediate handler that reads the whole control payload and records
  it (what wsutil.ReadMessage installs; wsutil.ControlFrameHandler reads it the same way before it
  answers): stream-level argument with the handler's log threaded through.
-/
import WsVerif.Proofs.Reader
import WsVerif.Model.Helper
namespace Ws.RdCb
open Ws Ws.Spec Ws.RdProof

theorem wf_drop {a b : Bytes} (g : Nat) (h : Bytes.WF (a ++ b)) : Bytes.WF (a.drop g ++ b) := by
  intro x hx
  rcases List.mem_append.mp hx with h1 | h1
  · exact h x (List.mem_append.mpr (Or.inl (List.mem_of_mem_drop h1)))
  · exact h x (List.mem_append.mpr (Or.inr h1))

theorem adv_zero (r : Rd) : adv r 0 = r := by cases r; simp [adv]
theorem adv_adv (r : Rd) (a b : Nat) : adv (adv r a) b = adv r (a + b) := by
  cases r; simp only [adv]; split <;> simp [Nat.sub_sub, Nat.add_assoc]

/-- Draining a frame through the frame stack, read by read (io.Copy / ReadAll over the handler's
    reader): the chunks are the unmasked payload, the stack ends at the frame's end with io.EOF. -/
theorem pull_frame : ∀ (fuel : Nat) (r : Rd) (s : Src) (cx : Ctx) (wire rest : Bytes) (k : Nat) (acc : List Bytes),
    InFrame0 r s wire rest → 0 < k → mu s + 1 < fuel →
    ∃ chunks s', Rd.pull false k none fuel r s cx acc = (acc.reverse ++ chunks, .eof, adv r wire.length, s', cx)
      ∧ chunks.flatten = plainOf r wire ∧ s'.bytes = rest ∧ Src.Tame s' ∧ mu s' ≤ mu s := by
  intro fuel
  induction fuel with
  | zero => intro r s cx wire rest k acc _ _ h; omega
  | succ n ih =>
    intro r s cx wire rest k acc hin hk hf
    unfold Rd.pull
    simp only [Bool.false_eq_true, if_false]
    by_cases hz : wire.length = 0
    · have hw : wire = [] := List.length_eq_zero_iff.mp hz
      subst hw
      have h0 : r.rawN = 0 := by rw [hin.n]; rfl
      rw [frameRead_done r s k h0 hin.noU hin.mwf]
      simp only [if_true]
      refine ⟨[], s, by simp [adv_zero], by unfold plainOf xorSpec; split <;> simp, by simpa using hin.bytes, hin.tame, Nat.le_refl _⟩
    · obtain ⟨g, e, s1, hfr, hg, hb1, hmu1, ht1, hlt, hee⟩ :=
        frameRead_inframe0 r s wire rest k hin hk (Nat.pos_of_ne_zero hz)
      rw [hfr]
      simp only
      have hpl : (plainOf r (wire.take g)).take g = plainOf r (wire.take g) := by
        apply List.take_of_length_le; rw [plainOf_length, List.length_take]; omega
      have hwf1 : Bytes.WF s1.bytes := by rw [hb1]; have := hin.wf; rw [hin.bytes] at this; exact wf_drop g this
      have hin1 : InFrame0 (adv r g) s1 (wire.drop g) rest :=
        ⟨by simp [adv, hin.noU], hb1, by simp [adv, hin.n], hwf1, by simp [adv]; exact hin.mwf, ht1⟩
      rcases hee with he | he
      · subst he
        simp only
        obtain ⟨chunks, s', h1, h2, h3, h4, h5⟩ := ih (adv r g) s1 cx (wire.drop g) rest k
          (if g = 0 then acc else (plainOf r (wire.take g)).take g :: acc) hin1 hk (by omega)
        rw [h1]
        by_cases hg0 : g = 0
        · subst hg0
          simp only [if_true] at h1 ⊢
          refine ⟨chunks, s', by simp [adv_adv], ?_, h3, h4, by omega⟩
          rw [h2]; simp [adv_zero]
        · simp only [hg0, if_false, hpl, List.reverse_cons, List.append_assoc, List.singleton_append]
          refine ⟨plainOf r (wire.take g) :: chunks, s', ?_, ?_, h3, h4, by omega⟩
          · rw [adv_adv, List.length_drop]
            have : g + (wire.length - g) = wire.length := by omega
            rw [this]
          · simp only [List.flatten_cons, h2]
            exact plainOf_split r wire g hg
      · subst he
        simp only
        have hgl : g = wire.length := by
          by_cases hne : g = wire.length
          · exact hne
          · have := hlt (by omega)
            cases this
        subst hgl
        by_cases hg0 : wire.length = 0
        · exact absurd hg0 hz
        · simp only [hg0, if_false, hpl, List.reverse_cons, List.append_assoc, List.singleton_append]
          refine ⟨[plainOf r (wire.take wire.length)], s1, rfl, by simp [List.take_length], ?_, ht1, by omega⟩
          rw [hb1]; simp

/-- the OnIntermediate handler wsutil.ReadMessage installs: read the control payload to its end, append
    (opcode, payload) to the message list -/
def collect : Callback := fun h r s cx =>
  let (chunks, e, r', s', cx') := Rd.pull false 512 none (pullFuel s) r s cx []
  if e = .eof then ⟨none, r', s', { cx' with msgs := cx'.msgs ++ [(h.op, chunks.flatten)] }⟩
  else ⟨some e, r', s', cx'⟩

def logMsg (h : Header) (p : Bytes) (cx : Ctx) : Ctx := { cx with msgs := cx.msgs ++ [(h.op, p)] }

/-- the reader after an intermediate control frame went through `collect` -/
def afterCtl (r : Rd) (h : Header) (n : Nat) : Rd :=
  { r with rawN := 0, masked := h.masked, mask := h.mask, cpos := if h.masked then n else 0, utf8on := false }

/-- NextFrame on an interleaved control frame with the collecting handler: the handler is given
    exactly the frame's unmasked payload, the reader stands behind the frame. -/
theorem nextFrame_ctl_collect (r : Rd) (s s1 : Src) (cx : Ctx) (f : WFrame) (tail : Bytes)
    (hh : readHeaderUtil s = (.ok f.h, s1)) (ha : Accepts r f.h) (hext : r.ext = false)
    (hctl : opIsControl f.h.op = true) (hfrag : r.fragmented = true)
    (hb : s1.bytes = f.wire ++ tail) (hok : f.OK) (hwf : Bytes.WF s1.bytes) (htame : Src.Tame s1) :
    ∃ s3, r.nextFrame s cx (some collect) = (some f.h, none, afterCtl r f.h f.wire.length, s3, logMsg f.h f.plain cx)
      ∧ s3.bytes = tail ∧ Src.Tame s3 ∧ mu s3 ≤ mu s1 := by
  unfold Rd.nextFrame
  simp only [hh, ha.1, ha.2, if_false, hext, Bool.false_eq_true]
  have hfr : ({ r with ext := false, rawN := f.h.len, masked := f.h.masked, mask := f.h.mask, cpos := 0, utf8on := false } : Rd).fragmented = true := by
    simpa [Rd.fragmented] using hfrag
  simp only [hfr, hctl, Bool.and_self, if_true]
  -- the handler
  have hin : InFrame0 ({ r with ext := false, rawN := f.h.len, masked := f.h.masked, mask := f.h.mask, cpos := 0, utf8on := false } : Rd)
      s1 f.wire tail := ⟨rfl, hb, by simp [hok.len], hwf, hok.mwf, htame⟩
  obtain ⟨chunks, s2, hp, hfl, hb2, ht2, hmu2⟩ := pull_frame (pullFuel s1) _ s1 cx f.wire tail 512 [] hin (by decide)
    (by unfold pullFuel Src.fuel mu; omega)
  have hpl : plainOf ({ r with ext := false, rawN := f.h.len, masked := f.h.masked, mask := f.h.mask, cpos := 0, utf8on := false } : Rd) f.wire
      = f.plain := rfl
  simp only [collect, hp, List.reverse_nil, List.nil_append, if_true]
  -- nothing is left to drain
  obtain ⟨s3, hd, hb3, ht3, hmu3, _⟩ := drainRaw_ok s2.fuel
    (adv ({ r with ext := false, rawN := f.h.len, masked := f.h.masked, mask := f.h.mask, cpos := 0, utf8on := false } : Rd) f.wire.length)
    s2 [] tail (by simpa using hb2) (by simp [adv, hok.len]) ht2 (by unfold Src.fuel mu; omega)
  refine ⟨s3, ?_, hb3, ht3, by omega⟩
  rw [hd, hfl, hpl]
  simp only [logMsg, afterCtl, adv, hext]
  cases hm : f.h.masked <;> simp [hok.len]

/-- what the handler will have logged once the frames `fs` have gone by -/
def ctlLog : List WFrame → Ctx → Ctx
  | [], cx => cx
  | f :: fs, cx => ctlLog fs (if opIsControl f.h.op then logMsg f.h f.plain cx else cx)

theorem afterCtl_fields (r : Rd) (h : Header) (n : Nat) :
    (afterCtl r h n).hasFrame = r.hasFrame ∧ (afterCtl r h n).state = r.state ∧ (afterCtl r h n).ext = r.ext
    ∧ (afterCtl r h n).checkUTF8 = r.checkUTF8 ∧ (afterCtl r h n).skipCheck = r.skipCheck
    ∧ (afterCtl r h n).maxFrame = r.maxFrame := by simp [afterCtl]

/-- **One Reader.Read anywhere inside a message, OnIntermediate = the collecting handler.** As
    `RdProof.step`, and every interleaved control frame gone by has been handed to the handler with its
    exact unmasked payload, in stream order: the handler's log after this Read plus what it will still
    log for the remaining frames is what it would log for all the frames that were remaining before. -/
theorem step_cb (ao skip : Bool) (st maxF : Nat) (rest : Bytes) (r : Rd) (s : Src) (cx : Ctx) (k : Nat) (hk : 0 < k)
    (rem : Bytes) (fs0 : List WFrame) (hs : Sync ao skip st maxF rest r s rem fs0) :
    (∃ bytes e r' s' cx', r.read s cx k (some collect) = some (bytes, bytes.length, e, r', s', cx') ∧
      ((e = none ∧ ∃ rem' fs', rem = bytes ++ rem' ∧ Sync ao skip st maxF rest r' s' rem' fs' ∧ weight r' s' < weight r s
            ∧ ctlLog fs' cx' = ctlLog fs0 cx)
       ∨ (e = some .eof ∧ rem = bytes ∧ s'.bytes = rest ∧ Src.Tame s' ∧ Done st r r' ∧ cx' = ctlLog fs0 cx)))
    ∨ AtEnd ao skip st maxF rest r s rem := by
  cases hs with
  | mid wire _ hc hin hst htail =>
    obtain ⟨b, e, r', s', h1, _, h2⟩ := step_inframe ao skip st maxF rest r s cx (some collect) k hk _ fs0
      (Or.inl ⟨wire, hc, hin, hst, htail, rfl⟩)
    refine Or.inl ⟨b, e, r', s', cx, h1, ?_⟩
    rcases h2 with ⟨he, rem', g1, g2, g3⟩ | ⟨he, g1, g2, g3, g4, g5⟩
    · exact Or.inl ⟨he, rem', fs0, g1, g2, g3, rfl⟩
    · subst g5; exact Or.inr ⟨he, g1, g2, g3, g4, rfl⟩
  | lastFrame wire hc hin hst =>
    obtain ⟨b, e, r', s', h1, _, h2⟩ := step_inframe ao skip st maxF rest r s cx (some collect) k hk _ []
      (Or.inr ⟨rfl, wire, hc, hin, hst, rfl⟩)
    refine Or.inl ⟨b, e, r', s', cx, h1, ?_⟩
    rcases h2 with ⟨he, rem', g1, g2, g3⟩ | ⟨he, g1, g2, g3, g4, _⟩
    · exact Or.inl ⟨he, rem', [], g1, g2, g3, rfl⟩
    · exact Or.inr ⟨he, g1, g2, g3, g4, rfl⟩
  | between _ hc hhas hst hb htail =>
    have hfrag : r.fragmented = true := by simp [Rd.fragmented, hst, hc.stF]
    have hw0 : weight r s = mu s := by simp [weight, hhas]
    cases htail with
    | opn hao => exact Or.inr ⟨hao, hc, hhas, hst, by simpa [encodeFs] using hb, rfl⟩
    | ctl f fs' hok hctl hacc ht' =>
      have hbytes : s.bytes = rfcEncode f.h ++ (f.wire ++ (encodeFs fs' ++ rest)) := by
        rw [hb]; simp [encodeFs, WFrame.enc, List.append_assoc]
      have hwt : Bytes.WF (f.wire ++ (encodeFs fs' ++ rest)) := by
        have := hc.wf; rw [hbytes] at this; exact wf_append_right this
      obtain ⟨s1, hrh, hb1, ht1, hmu1⟩ := readHeader_ok f.h hok.hwf _ hwt s hbytes hc.tame
      have hacc' : Accepts r f.h := by
        unfold Accepts; rw [hc.skip, hst, hc.maxF]; exact hacc
      obtain ⟨s3, hnf, hb3, ht3, hmu3⟩ := nextFrame_ctl_collect r s s1 cx f (encodeFs fs' ++ rest) hrh hacc' hc.ext hctl hfrag hb1 hok
        (by rw [hb1]; exact hwt) ht1
      obtain ⟨a1, a2, a3, a4, a5, a6⟩ := afterCtl_fields r f.h f.wire.length
      have hrd := read_skip r (afterCtl r f.h f.wire.length) s s3 cx (logMsg f.h f.plain cx) (some collect) k (some f.h) hhas hfrag hnf
        (by rw [a1, hhas])
      refine Or.inl ⟨[], none, afterCtl r f.h f.wire.length, s3, logMsg f.h f.plain cx, by simpa using hrd,
        Or.inl ⟨rfl, dataPlain fs', fs', ?_, ?_, ?_, ?_⟩⟩
      · simp [dataPlain, hctl]
      · refine Sync.between _ s3 fs' ?_ (by rw [a1, hhas]) (by rw [a2, hst]) hb3 ht'
        exact common_of skip st maxF hc _ _ a3 a4 a5 a6 ht3 (by rw [hb3]; exact wf_append_right hwt)
      · rw [hw0]; simp only [weight, a1, hhas, Bool.false_eq_true, if_false]; omega
      · simp [ctlLog, hctl]
    | cont f fs' hok hdata hfin hacc ht' =>
      have hbytes : s.bytes = rfcEncode f.h ++ (f.wire ++ (encodeFs fs' ++ rest)) := by
        rw [hb]; simp [encodeFs, WFrame.enc, List.append_assoc]
      have hwt : Bytes.WF (f.wire ++ (encodeFs fs' ++ rest)) := by
        have := hc.wf; rw [hbytes] at this; exact wf_append_right this
      obtain ⟨s1, hrh, hb1, ht1, hmu1⟩ := readHeader_ok f.h hok.hwf _ hwt s hbytes hc.tame
      have hacc' : Accepts r f.h := by
        unfold Accepts; rw [hc.skip, hst, hc.maxF]; exact hacc
      have hnf := nextFrame_data r s s1 cx (some collect) f.h hrh hacc' hc.ext hdata
      have hrd := read_enter r (enter r f.h) s s1 cx cx (some collect) k (some f.h) hhas hfrag hnf (by simp [enter])
      have hc5 : Common skip st maxF (enter r f.h) s1 :=
        common_of skip st maxF hc _ _ (by simp [enter]) (by simp [enter]) (by simp [enter]) (by simp [enter]) ht1 (by rw [hb1]; exact hwt)
      have hin5 : InFrame (enter r f.h) s1 f.wire (encodeFs fs' ++ rest) :=
        ⟨by simp [enter], by simp [enter, hc.u8], hb1, by simp [enter, hok.len], by rw [hb1]; exact hwt, by simp [enter]; exact hok.mwf, ht1⟩
      have hst5 : (enter r f.h).state = st := by simp [enter, hfin, hst, hc.stSet]
      obtain ⟨b, e, r', s', h1, hmle, h2⟩ := step_inframe ao skip st maxF rest (enter r f.h) s1 cx (some collect) k hk
        (plainOf (enter r f.h) f.wire ++ dataPlain fs') fs' (Or.inl ⟨f.wire, hc5, hin5, hst5, ht', rfl⟩)
      have hpl : plainOf (enter r f.h) f.wire = f.plain := rfl
      have hlog : ctlLog (f :: fs') cx = ctlLog fs' cx := by simp [ctlLog, hdata]
      refine Or.inl ⟨b, e, r', s', cx, by rw [hrd]; exact h1, ?_⟩
      rcases h2 with ⟨he, rem', hr1, hr2, hr3⟩ | ⟨he, hr1, hr2, hr3, hr4, hr5⟩
      · refine Or.inl ⟨he, rem', fs', ?_, hr2, ?_, hlog.symm⟩
        · simp only [dataPlain, hdata, Bool.false_eq_true, if_false]; rw [← hpl]; exact hr1
        · rw [hw0]
          have : weight r' s' < mu s1 + 1 := by simpa [weight, enter] using hr3
          omega
      · refine Or.inr ⟨he, ?_, hr2, hr3, ?_, ?_⟩
        · simp only [dataPlain, hdata, Bool.false_eq_true, if_false]; rw [← hpl]; exact hr1
        · exact ⟨hr4.has, hr4.state, hr4.op, hr4.u8, hr4.raw, hr4.u8on, by simpa [enter] using hr4.cfg⟩
        · rw [hlog, hr5]; rfl
    | last f hok hdata hfin hacc =>
      have hbytes : s.bytes = rfcEncode f.h ++ (f.wire ++ rest) := by
        rw [hb]; simp [encodeFs, WFrame.enc, List.append_assoc]
      have hwt : Bytes.WF (f.wire ++ rest) := by
        have := hc.wf; rw [hbytes] at this; exact wf_append_right this
      obtain ⟨s1, hrh, hb1, ht1, hmu1⟩ := readHeader_ok f.h hok.hwf _ hwt s hbytes hc.tame
      have hacc' : Accepts r f.h := by
        unfold Accepts; rw [hc.skip, hst, hc.maxF]; exact hacc
      have hnf := nextFrame_data r s s1 cx (some collect) f.h hrh hacc' hc.ext hdata
      have hrd := read_enter r (enter r f.h) s s1 cx cx (some collect) k (some f.h) hhas hfrag hnf (by simp [enter])
      have hc5 : Common skip st maxF (enter r f.h) s1 :=
        common_of skip st maxF hc _ _ (by simp [enter]) (by simp [enter]) (by simp [enter]) (by simp [enter]) ht1 (by rw [hb1]; exact hwt)
      have hin5 : InFrame (enter r f.h) s1 f.wire rest :=
        ⟨by simp [enter], by simp [enter, hc.u8], hb1, by simp [enter, hok.len], by rw [hb1]; exact hwt, by simp [enter]; exact hok.mwf, ht1⟩
      have hst5 : (enter r f.h).state = stClear st stFragmented := by simp [enter, hfin, hst]
      obtain ⟨b, e, r', s', h1, hmle, h2⟩ := step_inframe ao skip st maxF rest (enter r f.h) s1 cx (some collect) k hk
        (plainOf (enter r f.h) f.wire) [] (Or.inr ⟨rfl, f.wire, hc5, hin5, hst5, rfl⟩)
      have hpl : plainOf (enter r f.h) f.wire = f.plain := rfl
      have hlog : ctlLog [f] cx = cx := by simp [ctlLog, hdata]
      refine Or.inl ⟨b, e, r', s', cx, by rw [hrd]; exact h1, ?_⟩
      rcases h2 with ⟨he, rem', hr1, hr2, hr3⟩ | ⟨he, hr1, hr2, hr3, hr4, _⟩
      · refine Or.inl ⟨he, rem', [], ?_, hr2, ?_, by rw [hlog]; rfl⟩
        · simp only [dataPlain, hdata, Bool.false_eq_true, if_false, List.append_nil]; rw [← hpl]; exact hr1
        · rw [hw0]
          have : weight r' s' < mu s1 + 1 := by simpa [weight, enter] using hr3
          omega
      · refine Or.inr ⟨he, ?_, hr2, hr3, ?_, hlog.symm⟩
        · simp only [dataPlain, hdata, Bool.false_eq_true, if_false, List.append_nil]; rw [← hpl]; exact hr1
        · exact ⟨hr4.has, hr4.state, hr4.op, hr4.u8, hr4.raw, hr4.u8on, by simpa [enter] using hr4.cfg⟩

/-- the caller's loop (as `RdProof.reads`) for a reader with an OnIntermediate handler -/
def readsCb (cb : Option Callback) : Rd → Src → Ctx → List Nat → Option (Bytes × Option RErr × Rd × Src × Ctx)
  | r, s, cx, [] => some ([], none, r, s, cx)
  | r, s, cx, k :: ks =>
    match r.read s cx k cb with
    | none => none
    | some (bytes, n, e, r', s', cx') =>
      match e with
      | some e => some (bytes.take n, some e, r', s', cx')
      | none =>
        match readsCb cb r' s' cx' ks with
        | none => none
        | some (o, e2, r2, s2, cx2) => some (bytes.take n ++ o, e2, r2, s2, cx2)

/-- **Any sequence of Reads of a whole (closed) message with the collecting handler installed.** -/
theorem reads_cb (skip : Bool) (st maxF : Nat) (rest : Bytes) (ks : List Nat) (hpos : ∀ k ∈ ks, 0 < k)
    (r : Rd) (s : Src) (cx : Ctx) (rem : Bytes) (fs0 : List WFrame) (hs : Sync false skip st maxF rest r s rem fs0) :
    ∃ out e r' s' cx', readsCb (some collect) r s cx ks = some (out, e, r', s', cx') ∧
      ((e = none ∧ ∃ rem' fs', rem = out ++ rem' ∧ Sync false skip st maxF rest r' s' rem' fs'
            ∧ weight r' s' + ks.length ≤ weight r s ∧ ctlLog fs' cx' = ctlLog fs0 cx)
       ∨ (e = some .eof ∧ rem = out ∧ s'.bytes = rest ∧ Src.Tame s' ∧ Done st r r' ∧ cx' = ctlLog fs0 cx)) := by
  induction ks generalizing r s cx rem fs0 with
  | nil => exact ⟨[], none, r, s, cx, rfl, Or.inl ⟨rfl, rem, fs0, by simp, hs, by simp, rfl⟩⟩
  | cons k ks ih =>
    rcases step_cb false skip st maxF rest r s cx k (hpos k (by simp)) rem fs0 hs with ⟨b, e, r1, s1, cx1, hrd, hcase⟩ | hend
    · rcases hcase with ⟨he, rem1, fs1, hr1, hs1, hw1, hl1⟩ | ⟨he, hr1, hb1, ht1, hd1, hl1⟩
      · subst he
        obtain ⟨o, e2, r2, s2, cx2, hrd2, hcase2⟩ := ih (fun k' hk' => hpos k' (by simp [hk'])) r1 s1 cx1 rem1 fs1 hs1
        simp only [readsCb, hrd, hrd2, List.take_length]
        refine ⟨b ++ o, e2, r2, s2, cx2, rfl, ?_⟩
        rcases hcase2 with ⟨he2, rem2, fs2, hr2, hs2, hw2, hl2⟩ | ⟨he2, hr2, hb2, ht2, hd2, hl2⟩
        · refine Or.inl ⟨he2, rem2, fs2, by rw [hr1, hr2, List.append_assoc], hs2, ?_, by rw [hl2, hl1]⟩
          simp only [List.length_cons]; omega
        · refine Or.inr ⟨he2, by rw [hr1, hr2], hb2, ht2, ?_, by rw [hl2, hl1]⟩
          have hcfg : r1.skipCheck = r.skipCheck ∧ r1.checkUTF8 = r.checkUTF8 ∧ r1.ext = r.ext ∧ r1.maxFrame = r.maxFrame := by
            have c1 : Common skip st maxF r1 s1 := by cases hs1 <;> assumption
            have c0 : Common skip st maxF r s := by cases hs <;> assumption
            exact ⟨by rw [c1.skip, c0.skip], by rw [c1.u8, c0.u8], by rw [c1.ext, c0.ext], by rw [c1.maxF, c0.maxF]⟩
          obtain ⟨g1, g2, g3, g5⟩ := hd2.cfg
          exact ⟨hd2.has, hd2.state, hd2.op, hd2.u8, hd2.raw, hd2.u8on,
            by rw [g1, hcfg.1], by rw [g2, hcfg.2.1], by rw [g3, hcfg.2.2.1], by rw [g5, hcfg.2.2.2]⟩
      · subst he
        simp only [readsCb, hrd, List.take_length]
        exact ⟨b, some .eof, r1, s1, cx1, rfl, Or.inr ⟨rfl, hr1, hb1, ht1, hd1, hl1⟩⟩
    · exact absurd hend.opn (by decide)

end Ws.RdCb
