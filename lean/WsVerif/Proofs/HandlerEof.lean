/-
  Groundwork for "the control handler never reports io.EOF to the reader" (needed to carry the TEXT simulation of
  Proofs/ReaderText over to wsutil.ControlFrameHandler, see DESIGN §0.3): ws.Cipher maps a non-empty payload to a
  non-empty payload whenever it does not panic — without any well-formedness assumption on the bytes.
  Not yet used by a property theorem.
-/
import WsVerif.Proofs.ReaderBinG
namespace Ws.RdBin
open Ws Ws.Spec Ws.RdProof Ws.RdText Ws.RdCb

theorem xorFrom_ne_nil (m : Mask) (s : Nat) (p : Bytes) (h : p ≠ []) : xorFrom m s p ≠ [] := by
  cases p with
  | nil => exact absurd rfl h
  | cons b bs => simp [xorFrom]

/-- ws.Cipher maps a non-empty payload to a non-empty payload (when it does not panic) -/
theorem cipher_ne_nil (p : Bytes) (m : Mask) (off : Nat) (q : Bytes) (h : cipher p m off = some q) (hp : p ≠ []) : q ≠ [] := by
  unfold cipher at h
  simp only at h
  by_cases h8 : p.length < 8
  · simp only [h8, if_true, Option.some.injEq] at h
    rw [← h]; exact xorFrom_ne_nil _ _ _ hp
  · simp only [h8, if_false] at h
    generalize hcnt : (p.length - remain (off % 4) - (p.length - remain (off % 4)) % 16) >>> 4 = cnt at h
    have hrem : remain (off % 4) ≤ 3 := by
      unfold remain; split <;> omega
    cases cnt with
    | zero =>
      simp only [wordLoop, Option.some.injEq] at h
      -- everything behind the head is the tail
      have hz : (p.length - remain (off % 4) - (p.length - remain (off % 4)) % 16) / 16 = 0 := by
        rw [Nat.shiftRight_eq_div_pow] at hcnt; simpa using hcnt
      have hlt : p.length - remain (off % 4) - (p.length - remain (off % 4)) % 16 < 16 := by
        have := Nat.div_eq_zero_iff.mp hz
        omega
      have hmod : (p.length - remain (off % 4)) % 16 = p.length - remain (off % 4) := by
        have h16 := Nat.div_add_mod (p.length - remain (off % 4)) 16
        have hdvd : (p.length - remain (off % 4) - (p.length - remain (off % 4)) % 16) % 16 = 0 := by
          omega
        omega
      rw [← h]
      intro hnil
      have htail : xorFrom m (off % 4 + (p.length - (p.length - remain (off % 4)) % 16)) (p.drop (p.length - (p.length - remain (off % 4)) % 16)) = [] := by
        simp only [List.append_eq_nil_iff] at hnil; exact hnil.2
      have hdne : p.drop (p.length - (p.length - remain (off % 4)) % 16) ≠ [] := by
        intro hd
        have := congrArg List.length hd
        simp at this
        omega
      exact xorFrom_ne_nil _ _ _ hdne htail
    | succ c =>
      simp only [wordLoop] at h
      split at h
      · rename_i mid hmid
        simp only [Option.some.injEq] at h
        have hmne : mid ≠ [] := by
          split at hmid
          · split at hmid
            · simp only [Option.some.injEq] at hmid; rw [← hmid]; simp [putLe64, putLe]
            · cases hmid
          · cases hmid
        rw [← h]; simp [hmne]
      · cases h

theorem cipher_nil (m : Mask) (off : Nat) : cipher [] m off = some [] := by
  simp [cipher, xorFrom]

end Ws.RdBin
