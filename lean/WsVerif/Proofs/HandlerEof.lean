/-
  Groundwork for "the control handler never reports io.EOF to the reader" (needed to carry the TEXT simulation of
  Proofs/ReaderText over to wsutil.ControlFrameHandler, see DESIGN §0.3): ws.Cipher maps a non-empty payload to a
  non-empty payload whenever it does not panic — without any well-formedness assumption on the bytes.
  Not yet used by a property theorem.
-/
import WsVerif.Proofs.ReaderBinG
namespace Ws.RdBin
open Ws Ws.Spec Ws.RdProof Ws.RdText Ws.RdCb

theorem xorFrom_ne_nil (m : Mask) (s : Nat) (p : Bytes) (h : p ≠ []) : xorFrom m s p ≠ [] := by
  cases p with
  | nil => exact absurd rfl h
  | cons b bs => simp [xorFrom]

/-- ws.Cipher maps a non-empty payload to a non-empty payload (when it does not panic) -/
theorem cipher_ne_nil (p : Bytes) (m : Mask) (off : Nat) (q : Bytes) (h : cipher p m off = some q) (hp : p ≠ []) : q ≠ [] := by
  unfold cipher at h
  simp only at h
  by_cases h8 : p.length < 8
  · simp only [h8, if_true, Option.some.injEq] at h
    rw [← h]; exact xorFrom_ne_nil _ _ _ hp
  · simp only [h8, if_false] at h
    generalize hcnt : (p.length - remain (off % 4) - (p.length - remain (off % 4)) % 16) >>> 4 = cnt at h
    have hrem : remain (off % 4) ≤ 3 := by
      unfold remain; split <;> omega
    cases cnt with
    | zero =>
      simp only [wordLoop, Option.some.injEq] at h
      -- everything behind the head is the tail
      have hz : (p.length - remain (off % 4) - (p.length - remain (off % 4)) % 16) / 16 = 0 := by
        rw [Nat.shiftRight_eq_div_pow] at hcnt; simpa using hcnt
      have hlt : p.length - remain (off % 4) - (p.length - remain (off % 4)) % 16 < 16 := by
        have := Nat.div_eq_zero_iff.mp hz
        omega
      have hmod : (p.length - remain (off % 4)) % 16 = p.length - remain (off % 4) := by
        have h16 := Nat.div_add_mod (p.length - remain (off % 4)) 16
        have hdvd : (p.length - remain (off % 4) - (p.length - remain (off % 4)) % 16) % 16 = 0 := by
          omega
        omega
      rw [← h]
      intro hnil
      have htail : xorFrom m (off % 4 + (p.length - (p.length - remain (off % 4)) % 16)) (p.drop (p.length - (p.length - remain (off % 4)) % 16)) = [] := by
        simp only [List.append_eq_nil_iff] at hnil; exact hnil.2
      have hdne : p.drop (p.length - (p.length - remain (off % 4)) % 16) ≠ [] := by
        intro hd
        have := congrArg List.length hd
        simp at this
        omega
      exact xorFrom_ne_nil _ _ _ hdne htail
    | succ c =>
      simp only [wordLoop] at h
      split at h
      · rename_i mid hmid
        simp only [Option.some.injEq] at h
        have hmne : mid ≠ [] := by
          split at hmid
          · split at hmid
            · simp only [Option.some.injEq] at hmid; rw [← hmid]; simp [putLe64, putLe]
            · cases hmid
          · cases hmid
        rw [← h]; simp [hmne]
      · cases h

theorem cipher_nil (m : Mask) (off : Nat) : cipher [] m off = some [] := by
  simp [cipher, xorFrom]

/-- one read of the frame stack with the validator off -/
theorem frameRead_off_shape (r : Rd) (s : Src) (k : Nat) (hoff : r.utf8on = false)
    (bytes : Bytes) (n : Nat) (e : Option RErr) (r' : Rd) (s' : Src)
    (h : r.frameRead s k = some (bytes, n, e, r', s')) :
    n = bytes.length ∧ r'.utf8on = false
    ∧ ((r.rawN = 0 ∧ bytes = [] ∧ e = some .eof ∧ r'.rawN = 0)
       ∨ (r.rawN ≠ 0 ∧ (e = some .eof → bytes ≠ [] ∧ r'.rawN = 0) ∧ (e = none → bytes = [] → r'.rawN ≠ 0))) := by
  unfold Rd.frameRead Rd.rawRead at h
  by_cases h0 : r.rawN = 0
  · simp only [h0, if_true] at h
    by_cases hm : r.masked = true
    · simp only [hm, if_true, cipher_nil, hoff, Bool.false_eq_true, if_false, Option.some.injEq, Prod.mk.injEq] at h
      obtain ⟨rfl, rfl, rfl, rfl, rfl⟩ := h
      exact ⟨rfl, by simp [hoff], Or.inl ⟨h0, rfl, rfl, by simp [h0]⟩⟩
    · have hm' : r.masked = false := by simpa using hm
      simp only [hm', Bool.false_eq_true, if_false, hoff, Option.some.injEq, Prod.mk.injEq] at h
      obtain ⟨rfl, rfl, rfl, rfl, rfl⟩ := h
      exact ⟨rfl, hoff, Or.inl ⟨h0, rfl, rfl, h0⟩⟩
  · simp only [h0, if_false] at h
    have hlen := src_read_len s (min k r.rawN)
    rcases hr : s.read (min k r.rawN) with ⟨got, e0, s0⟩
    rw [hr] at h hlen
    simp only at h hlen
    have hgl : got.length ≤ r.rawN := by omega
    by_cases hm : r.masked = true
    · simp only [hm, if_true] at h
      rcases hc : cipher got r.mask r.cpos with _ | plain
      · rw [hc] at h; simp at h
      · rw [hc] at h
        simp only [hoff, Bool.false_eq_true, if_false, Option.some.injEq, Prod.mk.injEq] at h
        obtain ⟨rfl, rfl, he, rfl, _⟩ := h
        have hp2 : got ≠ [] → plain ≠ [] := cipher_ne_nil got r.mask r.cpos plain hc
        refine ⟨rfl, by simp [hoff], Or.inr ⟨h0, ?_, ?_⟩⟩
        · intro hee
          rw [hee] at he
          cases e0 with
          | none => simp at he
          | some f =>
            cases f with
            | fail => simp at he
            | eof =>
              by_cases hpos : r.rawN - got.length > 0
              · simp [hpos] at he
              · have hgn : got ≠ [] := by
                  intro hg; rw [hg] at hpos; simp at hpos; omega
                exact ⟨hp2 hgn, by simp; omega⟩
        · intro _ hb
          have hg : got = [] := by
            by_cases hg : got = []
            · exact hg
            · exact absurd hb (hp2 hg)
          simp [hg]; exact h0
    · have hm' : r.masked = false := by simpa using hm
      simp only [hm', Bool.false_eq_true, if_false, hoff, Option.some.injEq, Prod.mk.injEq] at h
      obtain ⟨rfl, rfl, he, rfl, _⟩ := h
      refine ⟨rfl, rfl, Or.inr ⟨h0, ?_, ?_⟩⟩
      · intro hee
        rw [hee] at he
        cases e0 with
        | none => simp at he
        | some f =>
          cases f with
          | fail => simp at he
          | eof =>
            by_cases hpos : r.rawN - got.length > 0
            · simp [hpos] at he
            · have hgn : got ≠ [] := by
                intro hg; rw [hg] at hpos; simp at hpos; omega
              exact ⟨hgn, by simp; omega⟩
      · intro _ hb
        simp [hb]; exact h0

/-- reading a frame (validator off) to its CLEAN end has delivered bytes, unless the frame was empty to begin with -/
theorem pull_eof_nonempty (k : Nat) (fuel : Nat) : ∀ (r : Rd) (s : Src) (cx : Ctx) (acc : List Bytes),
    r.utf8on = false → (r.rawN ≠ 0 ∨ ∃ c ∈ acc, c ≠ []) →
    (Rd.pull false k none fuel r s cx acc).2.1 = .eof → ∃ c ∈ (Rd.pull false k none fuel r s cx acc).1, c ≠ [] := by
  induction fuel with
  | zero => intro r s cx acc _ _ h; simp [Rd.pull] at h
  | succ n ih =>
    intro r s cx acc hoff hP h
    rw [Rd.pull] at h ⊢
    simp only [Bool.false_eq_true, if_false] at h ⊢
    rcases hfr : r.frameRead s k with _ | ⟨bytes, m, e, r', s'⟩
    · rw [hfr] at h; simp at h
    · rw [hfr] at h
      simp only at h ⊢
      obtain ⟨hm, hoff', hshape⟩ := frameRead_off_shape r s k hoff bytes m e r' s' hfr
      subst hm
      have htake : bytes.take bytes.length = bytes := List.take_length
      cases e with
      | some x =>
        simp only at h ⊢
        subst h
        rcases hshape with ⟨h0, hb, _, _⟩ | ⟨h0, he, _⟩
        · -- the frame was already at its end: something had been read before
          rcases hP with hP | ⟨c, hc, hne⟩
          · exact absurd h0 hP
          · refine ⟨c, ?_, hne⟩
            subst hb; simp [hc]
        · obtain ⟨hbne, _⟩ := he rfl
          have hl : bytes.length ≠ 0 := by intro hz; exact hbne (List.length_eq_zero_iff.mp hz)
          exact ⟨bytes, by simp [hl, htake], hbne⟩
      | none =>
        simp only at h ⊢
        apply ih r' s' cx _ hoff' _ h
        rcases hshape with ⟨_, _, he, _⟩ | ⟨h0, _, hn⟩
        · cases he
        · by_cases hb : bytes = []
          · left; exact hn rfl hb
          · right
            have hl : bytes.length ≠ 0 := by intro hz; exact hb (List.length_eq_zero_iff.mp hz)
            exact ⟨bytes, by simp [hl, htake], hb⟩

theorem endErr_ne_eof (src : CtlSrc) : src.endErr ≠ some .eof := by
  unfold CtlSrc.endErr
  cases src.fin <;> simp

theorem werrToC_ne_src (er : WErr) (x : RdErr) : werrToC er ≠ .src x := by
  cases er <;> simp [werrToC]

theorem handlePing_ne_src_eof (client : Bool) (h : Header) (src : CtlSrc) (e e' : Env) :
    handlePing client h src false e ≠ some (some (.src .eof), e') := by
  intro hh
  unfold handlePing at hh
  by_cases hz : h.len = 0
  · simp only [hz, if_true] at hh
    split at hh <;> simp at hh
  · simp only [hz, if_false, Bool.false_eq_true] at hh
    split at hh
    · cases hh
    · split at hh
      · cases hh
      · rename_i er _ e1 _
        simp only [Option.some.injEq, Prod.mk.injEq] at hh
        exact werrToC_ne_src er .eof hh.1
      · split at hh
        · rename_i re hre
          simp only [Option.some.injEq, Prod.mk.injEq, CErr.src.injEq] at hh
          exact endErr_ne_eof src (by rw [hre, hh.1])
        · split at hh
          · cases hh
          · rename_i er _ e2 _
            simp only [Option.some.injEq, Prod.mk.injEq] at hh
            cases er with
            | none => simp at hh
            | some w => simp at hh; exact werrToC_ne_src w .eof hh.1

theorem handlePong_ne_src_eof (h : Header) (src : CtlSrc) (e e' : Env) :
    handlePong h src e ≠ some (some (.src .eof), e') := by
  intro hh
  unfold handlePong at hh
  split at hh
  · simp at hh
  · simp only [Option.some.injEq, Prod.mk.injEq] at hh
    cases he : src.endErr with
    | none => rw [he] at hh; simp at hh
    | some x =>
      rw [he] at hh; simp at hh
      exact endErr_ne_eof src (by rw [he, hh.1])

/-- HandleClose reports io.EOF only when it was given NOTHING of a non-empty payload and the source ended cleanly -/
theorem handleClose_src_eof (client : Bool) (h : Header) (src : CtlSrc) (e e' : Env) (errText : ProtoErr → Bytes)
    (hh : handleClose client h src false e errText = some (some (.src .eof), e')) :
    src.bytes = [] ∧ src.ueofEnd = false ∧ src.endErr ≠ some .fail := by
  unfold handleClose at hh
  by_cases hz : h.len = 0
  · simp only [hz, if_true] at hh
    split at hh <;> simp at hh
  · simp only [hz, if_false, Bool.false_eq_true] at hh
    by_cases hlt : src.bytes.length < h.len
    · simp only [hlt, if_true, Option.some.injEq, Prod.mk.injEq, CErr.src.injEq] at hh
      obtain ⟨hre, _⟩ := hh
      split at hre
      · cases hre
      · rename_i hnf
        by_cases hc : src.bytes.isEmpty = true ∧ ¬ src.ueofEnd = true
        · refine ⟨by simpa using hc.1, by simpa using hc.2, ?_⟩
          intro hf; exact hnf hf
        · simp [hc] at hre
          exact ⟨hre.1, hre.2, fun hf => hnf hf⟩
    · simp only [hlt, if_false] at hh
      exfalso
      revert hh
      repeat' split
      all_goals (intro hh; simp at hh)
      all_goals (try exact absurd hh.1 (werrToC_ne_src _ .eof))

theorem handleControl_src_eof (client : Bool) (h : Header) (src : CtlSrc) (e e' : Env) (errText : ProtoErr → Bytes)
    (hh : handleControl client h src false e errText = some (some (.src .eof), e')) :
    src.bytes = [] ∧ src.ueofEnd = false ∧ src.endErr ≠ some .fail := by
  unfold handleControl at hh
  split at hh
  · exact absurd hh (handlePing_ne_src_eof client h src e e')
  · split at hh
    · exact absurd hh (handlePong_ne_src_eof h src e e')
    · split at hh
      · exact handleClose_src_eof client h src e e' errText hh
      · simp at hh

/-- **wsutil.ControlFrameHandler never reports io.EOF** for a control frame whose announced payload it was handed
    (`rawN = Length`): a payload that ends early is io.ErrUnexpectedEOF or the transport's failure. -/
theorem ctlHandler_ne_eof (client : Bool) (errText : ProtoErr → Bytes) (h : Header) (r : Rd) (s : Src) (cx : Ctx)
    (hoff : r.utf8on = false) (hraw : r.rawN = h.len) :
    (controlFrameHandler client errText false none h r s cx).err ≠ some .eof := by
  unfold controlFrameHandler
  by_cases hnp : h.len ≠ 0 ∧ (h.op = opPing ∨ h.op = opPong ∨ h.op = opClose)
  · have hnn : ¬ ¬ (h.len ≠ 0 ∧ (h.op = opPing ∨ h.op = opPong ∨ h.op = opClose)) := fun x => x hnp
    simp only [if_neg hnn]
    have hne := pull_eof_nonempty 32768 (pullFuel s) r s cx [] hoff (Or.inl (by rw [hraw]; exact hnp.1))
    rcases hp : Rd.pull false 32768 none (pullFuel s) r s cx [] with ⟨chunks, endE, r', s', cx'⟩
    rw [hp] at hne
    simp only at hne ⊢
    cases hre : rdErrOf endE with
    | none =>
      simp only
      intro heq
      simp only [Option.some.injEq] at heq
      rw [heq] at hre; simp [rdErrOf] at hre
    | some x =>
      simp only
      cases hhc : handleControl client h { chunks := chunks, fin := if endE = RErr.fail then Fin.fail else Fin.eof, ueofEnd := decide (endE = RErr.ueof) } false cx'.env errText with
      | none => simp
      | some p =>
        obtain ⟨er, env'⟩ := p
        simp only
        intro heq
        cases er with
        | none => simp at heq
        | some ce =>
          simp only [Option.map_some, Option.some.injEq] at heq
          have hce : ce = .src .eof := by
            cases ce <;> simp [cerrToR] at heq
            rename_i re; cases re <;> simp [cerrToR] at heq ⊢
          subst hce
          obtain ⟨hb, hu, hf⟩ := handleControl_src_eof client h _ cx'.env env' errText hhc
          -- the source ended cleanly and handed over nothing: but a clean end means bytes were read
          have hE : endE = .eof := by
            cases endE <;> simp [rdErrOf] at hre
            · rfl
            · simp at hu
            · simp [CtlSrc.endErr] at hf
          obtain ⟨c, hc, hcne⟩ := hne hE
          simp only [CtlSrc.bytes] at hb
          have : c = [] := by
            have := List.flatten_eq_nil_iff.mp hb c hc
            exact this
          exact hcne this
  · simp only [if_pos hnp]
    cases hhc : handleControl client h { chunks := [] } false cx.env errText with
    | none => simp
    | some p =>
      obtain ⟨er, env'⟩ := p
      simp only
      intro heq
      cases er with
      | none => simp at heq
      | some ce =>
        simp only [Option.map_some, Option.some.injEq] at heq
        have hce : ce = .src .eof := by
          cases ce <;> simp [cerrToR] at heq
          rename_i re; cases re <;> simp [cerrToR] at heq ⊢
        subst hce
        -- handed nothing: only HandleClose of a non-empty payload says so, and that needs the payload
        unfold handleControl at hhc
        split at hhc
        · exact absurd hhc (handlePing_ne_src_eof client h _ cx.env env')
        · split at hhc
          · exact absurd hhc (handlePong_ne_src_eof h _ cx.env env')
          · split at hhc
            · rename_i hnping hnpong hclose
              have hz : h.len = 0 := by
                by_cases hz : h.len = 0
                · exact hz
                · exact absurd ⟨hz, Or.inr (Or.inr hclose)⟩ hnp
              unfold handleClose at hhc
              simp only [hz, if_true] at hhc
              split at hhc <;> simp at hhc
            · simp at hhc

end Ws.RdBin
