/- Helper lemmas for C03. -/
import WsVerif.Model.Check
import WsVerif.Spec.Check
namespace Ws
open Ws.Spec

theorem st_bits_tbl :
    ((List.range 256).all fun s =>
      (stIs s stServer == (stOf s).server) && (stIs s stClient == (stOf s).client)
        && (stIs s stExtended == (stOf s).extended) && (stIs s stFragmented == (stOf s).fragmented)) = true := by
  decide +kernel

theorem st_bits {s : Nat} (h : s < 256) :
    stIs s stServer = (stOf s).server ∧ stIs s stClient = (stOf s).client
      ∧ stIs s stExtended = (stOf s).extended ∧ stIs s stFragmented = (stOf s).fragmented := by
  have := (List.all_eq_true.mp st_bits_tbl) s (List.mem_range.mpr h)
  simp only [Bool.and_eq_true, beq_iff_eq] at this
  obtain ⟨⟨⟨h1, h2⟩, h3⟩, h4⟩ := this
  exact ⟨h1, h2, h3, h4⟩

theorem op_ctl_tbl : ((List.range 16).all fun c => (opIsControl c == decide (8 ≤ c)) && (opIsData c == decide (c < 8))) = true := by
  decide +kernel

theorem op_ctl {c : Nat} (h : c < 16) : opIsControl c = decide (8 ≤ c) ∧ opIsData c = decide (c < 8) := by
  have := (List.all_eq_true.mp op_ctl_tbl) c (List.mem_range.mpr h)
  simp only [Bool.and_eq_true, beq_iff_eq] at this
  exact this

/-- Which RFC rule each reported error names. -/
def ruleOf : ProtoErr → Option Rule
  | .opCodeReserved => some .reservedOpcode
  | .controlPayloadOverflow => some .controlTooLong
  | .controlNotFinal => some .controlNotFinal
  | .nonZeroRsv => some .rsvWithoutExtension
  | .maskRequired => some .serverGotUnmasked
  | .maskUnexpected => some .clientGotMasked
  | .continuationExpected => some .dataWhileFragmented
  | .continuationUnexpected => some .continuationWhileIdle
  | _ => none

/-- The cascade of checkHeader on the abstract facts it looks at. -/
def chkB (f m sv cl ex fr rz lz : Bool) (o : Nat) : Option ProtoErr :=
  if opIsReserved o then some .opCodeReserved
  else if decide (8 ≤ o) && lz then some .controlPayloadOverflow
  else if decide (8 ≤ o) && !f then some .controlNotFinal
  else if rz && !ex then some .nonZeroRsv
  else if sv && !m then some .maskRequired
  else if cl && m then some .maskUnexpected
  else if fr && !decide (8 ≤ o) && o != 0 then some .continuationExpected
  else if !fr && o == 0 then some .continuationUnexpected
  else none

/-- The eight rules on the same abstract facts. -/
def brokenB (r : Rule) (f m sv cl ex fr rz lz : Bool) (o : Nat) : Bool :=
  match r with
  | .reservedOpcode => decide ((3 ≤ o ∧ o ≤ 7) ∨ (11 ≤ o ∧ o ≤ 15))
  | .controlTooLong => decide (8 ≤ o) && lz
  | .controlNotFinal => decide (8 ≤ o) && !f
  | .rsvWithoutExtension => rz && !ex
  | .serverGotUnmasked => sv && !m
  | .clientGotMasked => cl && m
  | .dataWhileFragmented => fr && !decide (8 ≤ o) && o != 0
  | .continuationWhileIdle => !fr && o == 0

def bools : List Bool := [true, false]

/-- Exhaustive over 2^8 fact combinations × 16 opcodes: the cascade accepts iff no rule is broken,
    and an error it reports names a broken rule. -/
theorem chk_tbl :
    (bools.all fun f => bools.all fun m => bools.all fun sv => bools.all fun cl => bools.all fun ex =>
     bools.all fun fr => bools.all fun rz => bools.all fun lz => (List.range 16).all fun o =>
      ((chkB f m sv cl ex fr rz lz o).isNone == allRules.all fun r => !brokenB r f m sv cl ex fr rz lz o)
      && (match chkB f m sv cl ex fr rz lz o with
          | none => true
          | some e => match ruleOf e with
            | some r => brokenB r f m sv cl ex fr rz lz o
            | none => false)) = true := by
  decide +kernel

theorem mem_bools (b : Bool) : b ∈ bools := by cases b <;> simp [bools]

theorem chk_spec (f m sv cl ex fr rz lz : Bool) {o : Nat} (ho : o < 16) :
    ((chkB f m sv cl ex fr rz lz o).isNone = allRules.all fun r => !brokenB r f m sv cl ex fr rz lz o)
    ∧ (∀ e, chkB f m sv cl ex fr rz lz o = some e → ∃ r, ruleOf e = some r ∧ brokenB r f m sv cl ex fr rz lz o = true) := by
  have h := chk_tbl
  simp only [List.all_eq_true] at h
  have := h f (mem_bools f) m (mem_bools m) sv (mem_bools sv) cl (mem_bools cl) ex (mem_bools ex)
    fr (mem_bools fr) rz (mem_bools rz) lz (mem_bools lz) o (List.mem_range.mpr ho)
  simp only [Bool.and_eq_true, beq_iff_eq] at this
  refine ⟨this.1, ?_⟩
  intro e he
  have h2 := this.2
  rw [he] at h2
  simp only at h2
  cases hr : ruleOf e with
  | none => rw [hr] at h2; simp at h2
  | some r => rw [hr] at h2; exact ⟨r, rfl, h2⟩

theorem broken_iff (r : Rule) (h : Header) (st : St) :
    Broken r h st ↔ brokenB r h.fin h.masked st.server st.client st.extended st.fragmented
      (h.rsv != 0) (decide (h.len > 125)) h.op = true := by
  cases r <;> simp [Broken, brokenB, isReserved, isControl, and_assoc]

theorem checkHeader_eq_chkB (h : Header) (s : Nat) (hop : h.op < 16) (hs : s < 256) :
    checkHeader h s = chkB h.fin h.masked (stOf s).server (stOf s).client (stOf s).extended (stOf s).fragmented
      (h.rsv != 0) (decide (h.len > 125)) h.op := by
  obtain ⟨b1, b2, b3, b4⟩ := st_bits hs
  obtain ⟨c1, _⟩ := op_ctl hop
  unfold checkHeader chkB
  rw [b1, b2, b3, b4, c1]
  rfl

end Ws
