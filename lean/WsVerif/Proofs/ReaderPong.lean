/-
  The stream invariant of Proofs/Reader with `wsutil.ControlFrameHandler` installed as OnIntermediate (the
  documented set-up of a wsutil.Reader): interleaved pings (0..125 bytes) are answered with exactly one pong
  carrying the identical payload, interleaved pongs with nothing; the data delivered is as without a handler.
  What the handler does to the destination is threaded through the invariant as a RELATION (`Handled`), because
  the handler's exact environment depends on how the control payload happened to be chunked while its wire
  output does not (C08.ping_reply_ok).
-/
import WsVerif.Proofs.ReaderCb
import WsVerif.Props.C08
import WsVerif.Props.C07ReadMessage
namespace Ws.RdPong
open Ws Ws.Spec Ws.RdProof Ws.RdCb Ws.C06 Ws.C08

/-- wsutil.ControlFrameHandler(w, state) as the reader's OnIntermediate -/
abbrev pongH (client : Bool) (errText : ProtoErr → Bytes) : Callback := controlFrameHandler client errText false none

/-- the pong that answers ping `f` under the drawn mask `m` -/
def pongWire (client : Bool) (f : WFrame) (m : Mask) : Bytes :=
  if f.h.len = 0 then frameHeaderOnly client opPong   -- a bare header (the client's carries the all-zero key)
  else rfcEncode (wireHeader client ⟨true, 0, opPong, false, Mask.zero, f.h.len⟩ m) ++ wirePayload client f.plain m

/-- an interleaved control frame this development covers: a ping (0..125 bytes), or any pong -/
def GoodCtl (f : WFrame) : Prop :=
  (f.h.op = opPing ∧ f.h.len ≤ 125) ∨ f.h.op = opPong

/-- what handling the control frame `f` does to the context -/
def Reply (client : Bool) (f : WFrame) (cx cx' : Ctx) : Prop :=
  EnvOk cx'.env ∧ cx'.msgs = cx.msgs ∧
    ((f.h.op = opPing ∧ cx'.env.dst.writes = cx.env.dst.writes ++ [pongWire client f cx.env.popMask.1])
     ∨ (f.h.op = opPong ∧ cx'.env.dst.writes = cx.env.dst.writes))

/-- the contexts the handler can reach over the control frames of `fs` -/
inductive Handled (client : Bool) : List WFrame → Ctx → Ctx → Prop
  | nil (cx : Ctx) : Handled client [] cx cx
  | data (f : WFrame) (fs : List WFrame) (cx cxF : Ctx) : opIsControl f.h.op = false →
      Handled client fs cx cxF → Handled client (f :: fs) cx cxF
  | ctl (f : WFrame) (fs : List WFrame) (cx cx1 cxF : Ctx) : opIsControl f.h.op = true →
      Reply client f cx cx1 → Handled client fs cx1 cxF → Handled client (f :: fs) cx cxF

/-- NextFrame on an interleaved ping / pong with the control handler installed -/
theorem nextFrame_ctl_h (client : Bool) (errText : ProtoErr → Bytes) (r : Rd) (s s1 : Src) (cx : Ctx) (f : WFrame) (tail : Bytes)
    (hh : readHeaderUtil s = (.ok f.h, s1)) (ha : Accepts r f.h) (hext : r.ext = false)
    (hctl : opIsControl f.h.op = true) (hfrag : r.fragmented = true) (hgood : GoodCtl f) (he : EnvOk cx.env)
    (hb : s1.bytes = f.wire ++ tail) (hok : f.OK) (hwf : Bytes.WF s1.bytes) (htame : Src.Tame s1) :
    ∃ s3 cx1, r.nextFrame s cx (some (pongH client errText)) = (some f.h, none, afterCtl r f.h f.wire.length, s3, cx1)
      ∧ s3.bytes = tail ∧ Src.Tame s3 ∧ mu s3 ≤ mu s1 ∧ Reply client f cx cx1 := by
  unfold Rd.nextFrame
  simp only [hh, ha.1, ha.2, if_false, hext, Bool.false_eq_true]
  have hfr : ({ r with ext := false, rawN := f.h.len, masked := f.h.masked, mask := f.h.mask, cpos := 0, utf8on := false } : Rd).fragmented = true := by
    simpa [Rd.fragmented] using hfrag
  simp only [hfr, hctl, Bool.and_self, if_true]
  have hin : InFrame0 ({ r with ext := false, rawN := f.h.len, masked := f.h.masked, mask := f.h.mask, cpos := 0, utf8on := false } : Rd)
      s1 f.wire tail := ⟨rfl, hb, by simp [hok.len], hwf, hok.mwf, htame⟩
  have hpl : plainOf ({ r with ext := false, rawN := f.h.len, masked := f.h.masked, mask := f.h.mask, cpos := 0, utf8on := false } : Rd) f.wire
      = f.plain := rfl
  have hplen : f.plain.length = f.h.len := by rw [← hpl, plainOf_length, hok.len]
  obtain ⟨chunks, s2, hp, hfl, hb2, ht2, hmu2⟩ := pull_frame (pullFuel s1) _ s1 cx f.wire tail 32768 [] hin (by decide)
    (by unfold pullFuel Src.fuel mu; omega)
  rw [hpl] at hfl
  obtain ⟨s3, hd, hb3, ht3, hmu3, _⟩ := drainRaw_ok s2.fuel
    (adv ({ r with ext := false, rawN := f.h.len, masked := f.h.masked, mask := f.h.mask, cpos := 0, utf8on := false } : Rd) f.wire.length)
    s2 [] tail (by simpa using hb2) (by simp [adv, hok.len]) ht2 (by unfold Src.fuel mu; omega)
  have hfinal : (adv ({ r with ext := false, rawN := f.h.len, masked := f.h.masked, mask := f.h.mask, cpos := 0, utf8on := false } : Rd) f.wire.length : Rd) = adv ({ r with ext := false, rawN := f.h.len, masked := f.h.masked, mask := f.h.mask, cpos := 0, utf8on := false } : Rd) f.wire.length := rfl
  rcases hgood with ⟨hping, hl125⟩ | hpong
  · by_cases hz : f.h.len = 0
    · -- an empty ping: nothing to read, a bare pong header in reply
      have hw0 : f.wire = [] := List.length_eq_zero_iff.mp (by rw [hok.len]; exact hz)
      have hwr := dst_write_ok cx.env.dst (frameHeaderOnly client opPong) he.no_fail
      obtain ⟨e1, he1⟩ : ∃ e1 : Env, e1 = ⟨(cx.env.dst.write (frameHeaderOnly client opPong)).2, cx.env.masks⟩ := ⟨_, rfl⟩
      obtain ⟨cx1, hcx1⟩ : ∃ cx1 : Ctx, cx1 = ⟨e1, cx.msgs, cx.events ++ [(f.h.op, [])]⟩ := ⟨_, rfl⟩
      have hh2 : handleControl client f.h { chunks := [] } false cx.env errText = some (none, e1) := by
        unfold handleControl handlePing
        rw [if_pos hping, if_pos hz, he1]
        simp [hwr]
      have hres : controlFrameHandler client errText false none f.h ({ r with ext := false, rawN := f.h.len, masked := f.h.masked, mask := f.h.mask, cpos := 0, utf8on := false } : Rd) s1 cx = ⟨none, ({ r with ext := false, rawN := f.h.len, masked := f.h.masked, mask := f.h.mask, cpos := 0, utf8on := false } : Rd), s1, cx1⟩ := by
        unfold controlFrameHandler
        simp only [hz, ne_eq, not_true_eq_false, false_and, not_false_eq_true, if_true, hh2]
        rw [hcx1]; simp
      obtain ⟨s4, hd4, hb4, ht4, hmu4, _⟩ := drainRaw_ok s1.fuel ({ r with ext := false, rawN := f.h.len, masked := f.h.masked, mask := f.h.mask, cpos := 0, utf8on := false } : Rd)
        s1 [] tail (by rw [hb, hw0]) (by simp [hz]) htame (by unfold Src.fuel mu; omega)
      refine ⟨s4, cx1, ?_, hb4, ht4, by omega, ⟨?_, ?_⟩, by rw [hcx1], Or.inl ⟨hping, ?_⟩⟩
      · simp only [hres, hd4]
        simp only [afterCtl, hext, hw0, List.length_nil]
        cases hm : f.h.masked <;> simp [hz]
      · rw [hcx1, he1]; exact he.masks_wf
      · rw [hcx1, he1]; simp [hwr]; exact he.no_fail
      · rw [hcx1, he1]; simp [pongWire, hz, hwr]
    -- a ping with payload: read through the frame, answered with one pong
    have hl0 : 0 < f.h.len := Nat.pos_of_ne_zero hz
    have hne : f.h.len ≠ 0 := hz
    obtain ⟨e', hh1, he', hw'⟩ := ping_reply_ok client f.h { chunks := chunks, fin := .eof, ueofEnd := false } cx.env he ⟨hl0, hl125⟩
      (by simp [CtlSrc.bytes, hfl, hplen]) (by
        simp only [CtlSrc.bytes, hfl]
        rw [← hpl]; exact C07.plainOf_wf _ hok.mwf _ hok.wwf) rfl rfl
    have hh2 : handleControl client f.h { chunks := chunks, fin := .eof, ueofEnd := false } false cx.env errText = some (none, e') := by
      unfold handleControl; rw [if_pos hping]; exact hh1
    have hres : controlFrameHandler client errText false none f.h ({ r with ext := false, rawN := f.h.len, masked := f.h.masked, mask := f.h.mask, cpos := 0, utf8on := false } : Rd) s1 cx
        = ⟨none, adv ({ r with ext := false, rawN := f.h.len, masked := f.h.masked, mask := f.h.mask, cpos := 0, utf8on := false } : Rd) f.wire.length, s2,
            { cx with env := e', events := cx.events ++ [(f.h.op, chunks.flatten)] }⟩ := by
      unfold controlFrameHandler
      simp only [hne, ne_eq, not_false_eq_true, hping, true_or, and_self, not_true_eq_false, if_false]
      simp only [hp, List.reverse_nil, List.nil_append]
      rw [← hping]
      simp [rdErrOf, hh2]
    refine ⟨s3, { cx with env := e', events := cx.events ++ [(f.h.op, chunks.flatten)] }, ?_, hb3, ht3, by omega,
      he', rfl, Or.inl ⟨hping, ?_⟩⟩
    · simp only [hres, hd]
      simp only [afterCtl, adv, hext]
      cases hm : f.h.masked <;> simp [hok.len]
    · simp only [hw', pongWire, if_neg hz, CtlSrc.bytes, hfl]
  · -- a pong: read to its end, nothing written
    have h1 : ¬ f.h.op = opPing := by rw [hpong]; decide
    by_cases hz : f.h.len = 0
    · have hw0 : f.wire = [] := List.length_eq_zero_iff.mp (by rw [hok.len]; exact hz)
      have hh2 : handleControl client f.h { chunks := [] } false cx.env errText = some (none, cx.env) := by
        unfold handleControl handlePong
        rw [if_neg h1, if_pos hpong, if_pos hz]
      have hres : controlFrameHandler client errText false none f.h ({ r with ext := false, rawN := f.h.len, masked := f.h.masked, mask := f.h.mask, cpos := 0, utf8on := false } : Rd) s1 cx
          = ⟨none, ({ r with ext := false, rawN := f.h.len, masked := f.h.masked, mask := f.h.mask, cpos := 0, utf8on := false } : Rd), s1, { cx with env := cx.env, events := cx.events ++ [(f.h.op, [])] }⟩ := by
        unfold controlFrameHandler
        simp only [hz, ne_eq, not_true_eq_false, false_and, not_false_eq_true, if_true, hh2]
        simp
      obtain ⟨s4, hd4, hb4, ht4, hmu4, _⟩ := drainRaw_ok s1.fuel ({ r with ext := false, rawN := f.h.len, masked := f.h.masked, mask := f.h.mask, cpos := 0, utf8on := false } : Rd)
        s1 [] tail (by rw [hb, hw0]) (by simp [hz]) htame (by unfold Src.fuel mu; omega)
      refine ⟨s4, { cx with env := cx.env, events := cx.events ++ [(f.h.op, [])] }, ?_, hb4, ht4, by omega,
        he, rfl, Or.inr ⟨hpong, rfl⟩⟩
      simp only [hres, hd4]
      simp only [afterCtl, hext, hw0, List.length_nil]
      cases hm : f.h.masked <;> simp [hz]
    · have hh2 : handleControl client f.h { chunks := chunks, fin := .eof, ueofEnd := false } false cx.env errText
          = some (none, cx.env) := by
        unfold handleControl handlePong
        rw [if_neg h1, if_pos hpong, if_neg hz]
        simp [CtlSrc.endErr]
      have hres : controlFrameHandler client errText false none f.h ({ r with ext := false, rawN := f.h.len, masked := f.h.masked, mask := f.h.mask, cpos := 0, utf8on := false } : Rd) s1 cx
          = ⟨none, adv ({ r with ext := false, rawN := f.h.len, masked := f.h.masked, mask := f.h.mask, cpos := 0, utf8on := false } : Rd) f.wire.length, s2,
              { cx with env := cx.env, events := cx.events ++ [(f.h.op, chunks.flatten)] }⟩ := by
        unfold controlFrameHandler
        simp only [hz, ne_eq, not_false_eq_true, hpong, true_or, or_true, and_self, not_true_eq_false, if_false]
        simp only [hp, List.reverse_nil, List.nil_append]
        rw [← hpong]
        simp [rdErrOf, hh2]
      refine ⟨s3, { cx with env := cx.env, events := cx.events ++ [(f.h.op, chunks.flatten)] }, ?_, hb3, ht3, by omega,
        he, rfl, Or.inr ⟨hpong, rfl⟩⟩
      simp only [hres, hd]
      simp only [afterCtl, adv, hext]
      cases hm : f.h.masked <;> simp [hok.len]

/-- **One Reader.Read anywhere inside a message, OnIntermediate = wsutil.ControlFrameHandler.** -/
theorem step_h (client : Bool) (errText : ProtoErr → Bytes) (ao skip : Bool) (st maxF : Nat) (rest : Bytes) (r : Rd) (s : Src) (cx : Ctx)
    (k : Nat) (hk : 0 < k) (rem : Bytes) (fs0 : List WFrame) (hs : Sync ao skip st maxF rest r s rem fs0)
    (henv : EnvOk cx.env) (hg : ∀ f ∈ fs0, opIsControl f.h.op = true → GoodCtl f) :
    (∃ bytes e r' s' cx', r.read s cx k (some (pongH client errText)) = some (bytes, bytes.length, e, r', s', cx') ∧ EnvOk cx'.env ∧
      ((e = none ∧ ∃ rem' fs', rem = bytes ++ rem' ∧ Sync ao skip st maxF rest r' s' rem' fs' ∧ weight r' s' < weight r s
            ∧ (∀ f ∈ fs', f ∈ fs0) ∧ (∀ cxF, Handled client fs' cx' cxF → Handled client fs0 cx cxF))
       ∨ (e = some .eof ∧ rem = bytes ∧ s'.bytes = rest ∧ Src.Tame s' ∧ Done st r r' ∧ Handled client fs0 cx cx')))
    ∨ AtEnd ao skip st maxF rest r s rem := by
  cases hs with
  | mid wire _ hc hin hst htail =>
    obtain ⟨b, e, r', s', h1, _, h2⟩ := step_inframe ao skip st maxF rest r s cx (some (pongH client errText)) k hk _ fs0
      (Or.inl ⟨wire, hc, hin, hst, htail, rfl⟩)
    refine Or.inl ⟨b, e, r', s', cx, h1, henv, ?_⟩
    rcases h2 with ⟨he, rem', g1, g2, g3⟩ | ⟨he, g1, g2, g3, g4, g5⟩
    · exact Or.inl ⟨he, rem', fs0, g1, g2, g3, (fun _ h => h), (fun _ h => h)⟩
    · subst g5; exact Or.inr ⟨he, g1, g2, g3, g4, Handled.nil cx⟩
  | lastFrame wire hc hin hst =>
    obtain ⟨b, e, r', s', h1, _, h2⟩ := step_inframe ao skip st maxF rest r s cx (some (pongH client errText)) k hk _ []
      (Or.inr ⟨rfl, wire, hc, hin, hst, rfl⟩)
    refine Or.inl ⟨b, e, r', s', cx, h1, henv, ?_⟩
    rcases h2 with ⟨he, rem', g1, g2, g3⟩ | ⟨he, g1, g2, g3, g4, _⟩
    · exact Or.inl ⟨he, rem', [], g1, g2, g3, (fun _ h => h), (fun _ h => h)⟩
    · exact Or.inr ⟨he, g1, g2, g3, g4, Handled.nil cx⟩
  | between _ hc hhas hst hb htail =>
    have hfrag : r.fragmented = true := by simp [Rd.fragmented, hst, hc.stF]
    have hw0 : weight r s = mu s := by simp [weight, hhas]
    cases htail with
    | opn hao => exact Or.inr ⟨hao, hc, hhas, hst, by simpa [encodeFs] using hb, rfl⟩
    | ctl f fs' hok hctl hacc ht' =>
      have hbytes : s.bytes = rfcEncode f.h ++ (f.wire ++ (encodeFs fs' ++ rest)) := by
        rw [hb]; simp [encodeFs, WFrame.enc, List.append_assoc]
      have hwt : Bytes.WF (f.wire ++ (encodeFs fs' ++ rest)) := by
        have := hc.wf; rw [hbytes] at this; exact wf_append_right this
      obtain ⟨s1, hrh, hb1, ht1, hmu1⟩ := readHeader_ok f.h hok.hwf _ hwt s hbytes hc.tame
      have hacc' : Accepts r f.h := by
        unfold Accepts; rw [hc.skip, hst, hc.maxF]; exact hacc
      obtain ⟨s3, cx1, hnf, hb3, ht3, hmu3, hrep⟩ := nextFrame_ctl_h client errText r s s1 cx f (encodeFs fs' ++ rest) hrh hacc' hc.ext hctl hfrag
        (hg f (List.mem_cons_self ..) hctl) henv hb1 hok
        (by rw [hb1]; exact hwt) ht1
      obtain ⟨a1, a2, a3, a4, a5, a6⟩ := afterCtl_fields r f.h f.wire.length
      have hrd := read_skip r (afterCtl r f.h f.wire.length) s s3 cx cx1 (some (pongH client errText)) k (some f.h) hhas hfrag hnf
        (by rw [a1, hhas])
      refine Or.inl ⟨[], none, afterCtl r f.h f.wire.length, s3, cx1, by simpa using hrd, hrep.1,
        Or.inl ⟨rfl, dataPlain fs', fs', ?_, ?_, ?_, (fun g hg' => List.mem_cons_of_mem _ hg'),
          (fun cxF h => Handled.ctl f fs' cx cx1 cxF hctl hrep h)⟩⟩
      · simp [dataPlain, hctl]
      · refine Sync.between _ s3 fs' ?_ (by rw [a1, hhas]) (by rw [a2, hst]) hb3 ht'
        exact common_of skip st maxF hc _ _ a3 a4 a5 a6 ht3 (by rw [hb3]; exact wf_append_right hwt)
      · rw [hw0]; simp only [weight, a1, hhas, Bool.false_eq_true, if_false]; omega
    | cont f fs' hok hdata hfin hacc ht' =>
      have hbytes : s.bytes = rfcEncode f.h ++ (f.wire ++ (encodeFs fs' ++ rest)) := by
        rw [hb]; simp [encodeFs, WFrame.enc, List.append_assoc]
      have hwt : Bytes.WF (f.wire ++ (encodeFs fs' ++ rest)) := by
        have := hc.wf; rw [hbytes] at this; exact wf_append_right this
      obtain ⟨s1, hrh, hb1, ht1, hmu1⟩ := readHeader_ok f.h hok.hwf _ hwt s hbytes hc.tame
      have hacc' : Accepts r f.h := by
        unfold Accepts; rw [hc.skip, hst, hc.maxF]; exact hacc
      have hnf := nextFrame_data r s s1 cx (some (pongH client errText)) f.h hrh hacc' hc.ext hdata
      have hrd := read_enter r (enter r f.h) s s1 cx cx (some (pongH client errText)) k (some f.h) hhas hfrag hnf (by simp [enter])
      have hc5 : Common skip st maxF (enter r f.h) s1 :=
        common_of skip st maxF hc _ _ (by simp [enter]) (by simp [enter]) (by simp [enter]) (by simp [enter]) ht1 (by rw [hb1]; exact hwt)
      have hin5 : InFrame (enter r f.h) s1 f.wire (encodeFs fs' ++ rest) :=
        ⟨by simp [enter], by simp [enter, hc.u8], hb1, by simp [enter, hok.len], by rw [hb1]; exact hwt, by simp [enter]; exact hok.mwf, ht1⟩
      have hst5 : (enter r f.h).state = st := by simp [enter, hfin, hst, hc.stSet]
      obtain ⟨b, e, r', s', h1, hmle, h2⟩ := step_inframe ao skip st maxF rest (enter r f.h) s1 cx (some (pongH client errText)) k hk
        (plainOf (enter r f.h) f.wire ++ dataPlain fs') fs' (Or.inl ⟨f.wire, hc5, hin5, hst5, ht', rfl⟩)
      have hpl : plainOf (enter r f.h) f.wire = f.plain := rfl
      refine Or.inl ⟨b, e, r', s', cx, by rw [hrd]; exact h1, henv, ?_⟩
      rcases h2 with ⟨he, rem', hr1, hr2, hr3⟩ | ⟨he, hr1, hr2, hr3, hr4, hr5⟩
      · refine Or.inl ⟨he, rem', fs', ?_, hr2, ?_, (fun g hg' => List.mem_cons_of_mem _ hg'),
          (fun cxF h => Handled.data f fs' cx cxF hdata h)⟩
        · simp only [dataPlain, hdata, Bool.false_eq_true, if_false]; rw [← hpl]; exact hr1
        · rw [hw0]
          have : weight r' s' < mu s1 + 1 := by simpa [weight, enter] using hr3
          omega
      · refine Or.inr ⟨he, ?_, hr2, hr3, ?_, ?_⟩
        · simp only [dataPlain, hdata, Bool.false_eq_true, if_false]; rw [← hpl]; exact hr1
        · exact ⟨hr4.has, hr4.state, hr4.op, hr4.u8, hr4.raw, hr4.u8on, by simpa [enter] using hr4.cfg⟩
        · rw [hr5]; exact Handled.data f [] cx cx hdata (Handled.nil cx)
    | last f hok hdata hfin hacc =>
      have hbytes : s.bytes = rfcEncode f.h ++ (f.wire ++ rest) := by
        rw [hb]; simp [encodeFs, WFrame.enc, List.append_assoc]
      have hwt : Bytes.WF (f.wire ++ rest) := by
        have := hc.wf; rw [hbytes] at this; exact wf_append_right this
      obtain ⟨s1, hrh, hb1, ht1, hmu1⟩ := readHeader_ok f.h hok.hwf _ hwt s hbytes hc.tame
      have hacc' : Accepts r f.h := by
        unfold Accepts; rw [hc.skip, hst, hc.maxF]; exact hacc
      have hnf := nextFrame_data r s s1 cx (some (pongH client errText)) f.h hrh hacc' hc.ext hdata
      have hrd := read_enter r (enter r f.h) s s1 cx cx (some (pongH client errText)) k (some f.h) hhas hfrag hnf (by simp [enter])
      have hc5 : Common skip st maxF (enter r f.h) s1 :=
        common_of skip st maxF hc _ _ (by simp [enter]) (by simp [enter]) (by simp [enter]) (by simp [enter]) ht1 (by rw [hb1]; exact hwt)
      have hin5 : InFrame (enter r f.h) s1 f.wire rest :=
        ⟨by simp [enter], by simp [enter, hc.u8], hb1, by simp [enter, hok.len], by rw [hb1]; exact hwt, by simp [enter]; exact hok.mwf, ht1⟩
      have hst5 : (enter r f.h).state = stClear st stFragmented := by simp [enter, hfin, hst]
      obtain ⟨b, e, r', s', h1, hmle, h2⟩ := step_inframe ao skip st maxF rest (enter r f.h) s1 cx (some (pongH client errText)) k hk
        (plainOf (enter r f.h) f.wire) [] (Or.inr ⟨rfl, f.wire, hc5, hin5, hst5, rfl⟩)
      have hpl : plainOf (enter r f.h) f.wire = f.plain := rfl
      refine Or.inl ⟨b, e, r', s', cx, by rw [hrd]; exact h1, henv, ?_⟩
      rcases h2 with ⟨he, rem', hr1, hr2, hr3⟩ | ⟨he, hr1, hr2, hr3, hr4, _⟩
      · refine Or.inl ⟨he, rem', [], ?_, hr2, ?_, (fun g hg' => by cases hg'),
          (fun cxF h => Handled.data f [] cx cxF hdata h)⟩
        · simp only [dataPlain, hdata, Bool.false_eq_true, if_false, List.append_nil]; rw [← hpl]; exact hr1
        · rw [hw0]
          have : weight r' s' < mu s1 + 1 := by simpa [weight, enter] using hr3
          omega
      · refine Or.inr ⟨he, ?_, hr2, hr3, ?_, Handled.data f [] cx cx hdata (Handled.nil cx)⟩
        · simp only [dataPlain, hdata, Bool.false_eq_true, if_false, List.append_nil]; rw [← hpl]; exact hr1
        · exact ⟨hr4.has, hr4.state, hr4.op, hr4.u8, hr4.raw, hr4.u8on, by simpa [enter] using hr4.cfg⟩


end Ws.RdPong
