/-
  The reader with UTF-8 checking switched on, related to the same reader with it switched off
  (`strip`): the two make the same transport reads, hand out the same bytes and report the same
  errors for as long as the text delivered so far has not left Table 3-7; the checking reader adds
  ErrInvalidUTF8 at the first Read whose bytes do, and at the end of a message whose last character
  is incomplete. No assumption on the stream: this is a statement about Reader.Read / NextFrame
  themselves, so every stream-level theorem about the non-checking reader (Proofs/Reader.lean)
  carries over to text messages (Props/C07).
-/
import WsVerif.Proofs.Reader
import WsVerif.Proofs.Utf8
namespace Ws.RdText
open Ws Ws.Spec Ws.RdProof

/-- the same reader without UTF-8 checking -/
def strip (r : Rd) : Rd := { r with checkUTF8 := false, utf8on := false, utf8 := {} }

/-! ### the validating loop, exactly -/

theorem go_ok (u : Utf8Rd) (s : U8) (acc i : Nat) (p : Bytes) (hp : Bytes.WF p) (h : u8Run s p ≠ .rej) (hacc : acc ≤ i) :
    ∃ a, Utf8Rd.feed.go u (u8Enc s) acc i p = some (i + p.length, false, ⟨u8Enc (u8Run s p), a⟩)
      ∧ a ≤ i + p.length ∧ (p ≠ [] → u8Run s p ≠ .acc → a < i + p.length) := by
  induction p generalizing s acc i with
  | nil => exact ⟨acc, by simp [Utf8Rd.feed.go, u8Run], by simpa using hacc, fun h => absurd rfl h⟩
  | cons b bs ih =>
    have hb0 : b < 256 := hp b (by simp)
    rw [u8Run_cons] at h
    have hne : u8Step s b ≠ .rej := by
      intro hr; rw [hr, u8Run_rej] at h; exact h rfl
    have hr : ¬ u8Enc (u8Step s b) = utf8Reject := by
      intro hr; exact hne (u8Enc_inj (by simpa [u8Enc, utf8Reject] using hr))
    simp only [Utf8Rd.feed.go, utf8Step_ok s hb0, hr, if_false, u8Run_cons]
    have hacc' : (if u8Enc (u8Step s b) = utf8Accept then i + 1 else acc) ≤ i + 1 := by split <;> omega
    obtain ⟨a, ha, hle, hlt⟩ := ih (u8Step s b) _ (i + 1) (fun x hx => hp x (by simp [hx])) h hacc'
    refine ⟨a, by rw [ha]; simp; omega, by simp at hle ⊢; omega, fun _ hna => ?_⟩
    by_cases hbs : bs = []
    · subst hbs
      simp only [Utf8Rd.feed.go, Option.some.injEq, Prod.mk.injEq] at ha
      have hstep : u8Step s b ≠ .acc := by simpa [u8Run] using hna
      have hne2 : ¬ u8Enc (u8Step s b) = utf8Accept := by
        intro hq; exact hstep (u8Enc_inj (by simpa [u8Enc, utf8Accept] using hq))
      simp only [hne2, if_false] at ha
      have : a = acc := by
        have := ha.2.2; injection this with _ h2; exact h2.symm
      simp; omega
    · have := hlt hbs hna
      simp at this ⊢; omega

theorem go_bad (u : Utf8Rd) (s : U8) (acc i : Nat) (p : Bytes) (hp : Bytes.WF p) (hs : s ≠ .rej)
    (h : u8Run s p = .rej) (hacc : acc ≤ i) :
    ∃ n u', Utf8Rd.feed.go u (u8Enc s) acc i p = some (n, true, u') ∧ n < i + p.length := by
  induction p generalizing s acc i with
  | nil => simp [u8Run] at h; exact absurd h hs
  | cons b bs ih =>
    have hb0 : b < 256 := hp b (by simp)
    rw [u8Run_cons] at h
    simp only [Utf8Rd.feed.go, utf8Step_ok s hb0]
    by_cases hr : u8Enc (u8Step s b) = utf8Reject
    · simp only [hr, if_true]
      exact ⟨acc, _, rfl, by simp; omega⟩
    · have hne : u8Step s b ≠ .rej := by
        intro hq; rw [hq] at hr; exact hr (by simp [u8Enc, utf8Reject])
      simp only [hr, if_false]
      obtain ⟨n, u', h1, h2⟩ := ih (u8Step s b) (if u8Enc (u8Step s b) = utf8Accept then i + 1 else acc) (i + 1)
        (fun x hx => hp x (by simp [hx])) hne h (by split <;> omega)
      exact ⟨n, u', h1, by simp; omega⟩

/-! ### one layer at a time: the checking reader in terms of the non-checking one -/

/-- put the UTF-8 fields of `r` back into a state of the non-checking reader -/
def restore (r q : Rd) : Rd := { q with checkUTF8 := r.checkUTF8, utf8on := r.utf8on, utf8 := r.utf8 }

theorem restore_strip (r : Rd) : restore r (strip r) = r := by cases r; rfl

theorem rawRead_strip (r : Rd) (s : Src) (k : Nat) :
    (strip r).rawRead s k = ((r.rawRead s k).1, (r.rawRead s k).2.1, strip (r.rawRead s k).2.2.1, (r.rawRead s k).2.2.2) := by
  unfold Rd.rawRead strip
  split <;> rfl

theorem frameRead_eq (r : Rd) (s : Src) (k : Nat) :
    r.frameRead s k = match (strip r).frameRead s k with
      | none => none
      | some (plain, _, e, q, s1) =>
        if r.utf8on then
          match r.utf8.feed plain with
          | none => none
          | some (n, bad, u') =>
            if bad then some (plain, n, some .utf8, { restore r q with utf8 := u' }, s1)
            else some (plain, n, e, { restore r q with utf8 := u' }, s1)
        else some (plain, plain.length, e, restore r q, s1) := by
  unfold Rd.frameRead
  rw [rawRead_strip]
  rcases hr : r.rawRead s k with ⟨got, e, r1, s1⟩
  have h1 : r1.utf8on = r.utf8on ∧ r1.utf8 = r.utf8 ∧ r1.checkUTF8 = r.checkUTF8 := by
    unfold Rd.rawRead at hr
    split at hr
    · simp only [Prod.mk.injEq] at hr; obtain ⟨_, _, rfl, _⟩ := hr; exact ⟨rfl, rfl, rfl⟩
    · simp only [Prod.mk.injEq] at hr; obtain ⟨_, _, rfl, _⟩ := hr; exact ⟨rfl, rfl, rfl⟩
  obtain ⟨h1a, h1b, h1c⟩ := h1
  obtain ⟨st, sk, ck, ex, co, mf, oc, hf, rn, mk, msk, cp, uon, u8⟩ := r1
  simp only at h1a h1b h1c
  subst h1a h1b h1c
  simp only [strip]
  cases mk
  · simp only [Bool.false_eq_true, if_false]
    cases hu : r.utf8on
    · simp [restore, hu]
    · simp only [if_true]
      cases r.utf8.feed got with
      | none => rfl
      | some x =>
        obtain ⟨n, bad, u'⟩ := x
        cases bad <;> simp [restore, hu]
  · simp only [if_true]
    cases hc : cipher got msk cp with
    | none => rfl
    | some plain =>
      simp only [Bool.false_eq_true, if_false]
      cases hu : r.utf8on
      · simp [restore, hu]
      · simp only [if_true]
        cases r.utf8.feed plain with
        | none => rfl
        | some x =>
          obtain ⟨n, bad, u'⟩ := x
          cases bad <;> simp [restore, hu]

theorem strip_fragmented (r : Rd) : (strip r).fragmented = r.fragmented := rfl

theorem drainRaw_strip (r : Rd) (s : Src) (n : Nat) :
    (strip r).drainRaw s n = ((r.drainRaw s n).1, strip (r.drainRaw s n).2.1, (r.drainRaw s n).2.2) := by
  induction n generalizing r s with
  | zero => rfl
  | succ n ih =>
    unfold Rd.drainRaw
    rw [rawRead_strip]
    rcases hr : r.rawRead s 32768 with ⟨got, e, r', s'⟩
    simp only
    cases e with
    | some f => cases f <;> rfl
    | none =>
      have : (strip r').rawN = r'.rawN ∧ (strip r).rawN = r.rawN := ⟨rfl, rfl⟩
      simp only [this.1, this.2]
      split
      · rfl
      · exact ih r' s'

/-- NextFrame does not look at the UTF-8 fields except to decide whether the new frame goes through
    the validating reader. -/
theorem nextFrame_strip (r : Rd) (s : Src) (cx : Ctx) :
    (strip r).nextFrame s cx none =
      ((r.nextFrame s cx none).1, (r.nextFrame s cx none).2.1, strip (r.nextFrame s cx none).2.2.1,
       (r.nextFrame s cx none).2.2.2.1, (r.nextFrame s cx none).2.2.2.2) := by
  obtain ⟨st, sk, ck, ex, co, mf, oc, hf, rn, mk, msk, cp, uon, u8⟩ := r
  unfold Rd.nextFrame
  simp only [strip]
  rcases readHeaderUtil s with ⟨res, s1⟩
  cases res with
  | error e =>
    cases e with
    | io f => cases f <;> rfl
    | _ => rfl
  | ok hdr =>
    have key : ∀ (ck0 : Option ProtoErr) (x : Header × Option ProtoErr × Bool),
        (match ck0 with
          | some pe => ((some hdr, some (RErr.proto pe), (⟨st, sk, false, ex, co, mf, oc, hf, rn, mk, msk, cp, false, {}⟩ : Rd), s1, cx) : Option Header × Option RErr × Rd × Src × Ctx)
          | none =>
            if mf > 0 ∧ hdr.len > mf then (some hdr, some .tooLarge, ⟨st, sk, false, ex, co, mf, oc, hf, rn, mk, msk, cp, false, {}⟩, s1, cx)
            else
              let r1 : Rd := ⟨st, sk, false, ex, co, mf, oc, hf, hdr.len, hdr.masked, hdr.mask, 0, false, {}⟩
              let r2 := { r1 with compressed := x.2.2 }
              match x.2.1 with
              | some pe => (some x.1, some (.proto pe), (⟨st, sk, false, ex, x.2.2, mf, oc, hf, hdr.len, mk, (if hdr.masked then hdr.mask else msk), (if hdr.masked then 0 else cp), false, {}⟩ : Rd), s1, cx)
              | none =>
                if r2.fragmented && opIsControl x.1.op then
                  let (e, r3, s3) := r2.drainRaw s1 s1.fuel
                  (some x.1, e, r3, s3, cx)
                else
                  let r3 := if r2.fragmented then r2 else { r2 with opCode := x.1.op }
                  let useUtf8 := r3.checkUTF8 && (x.1.op == opText || (r3.fragmented && r3.opCode == opText))
                  let r4 := { r3 with utf8on := useUtf8, hasFrame := true }
                  let r5 := { r4 with state := if x.1.fin then stClear r4.state stFragmented else stSet r4.state stFragmented }
                  (some x.1, none, r5, s1, cx))
        = (let q : Option Header × Option RErr × Rd × Src × Ctx :=
            (match ck0 with
            | some pe => (some hdr, some (RErr.proto pe), (⟨st, sk, ck, ex, co, mf, oc, hf, rn, mk, msk, cp, uon, u8⟩ : Rd), s1, cx)
            | none =>
              if mf > 0 ∧ hdr.len > mf then (some hdr, some .tooLarge, ⟨st, sk, ck, ex, co, mf, oc, hf, rn, mk, msk, cp, uon, u8⟩, s1, cx)
              else
                let r1 : Rd := ⟨st, sk, ck, ex, co, mf, oc, hf, hdr.len, hdr.masked, hdr.mask, 0, false, u8⟩
                let r2 := { r1 with compressed := x.2.2 }
                match x.2.1 with
                | some pe => (some x.1, some (.proto pe), (⟨st, sk, ck, ex, x.2.2, mf, oc, hf, hdr.len, mk, (if hdr.masked then hdr.mask else msk), (if hdr.masked then 0 else cp), uon, u8⟩ : Rd), s1, cx)
                | none =>
                  if r2.fragmented && opIsControl x.1.op then
                    let (e, r3, s3) := r2.drainRaw s1 s1.fuel
                    (some x.1, e, r3, s3, cx)
                  else
                    let r3 := if r2.fragmented then r2 else { r2 with opCode := x.1.op }
                    let useUtf8 := r3.checkUTF8 && (x.1.op == opText || (r3.fragmented && r3.opCode == opText))
                    let r4 := { r3 with utf8on := useUtf8, hasFrame := true }
                    let r5 := { r4 with state := if x.1.fin then stClear r4.state stFragmented else stSet r4.state stFragmented }
                    (some x.1, none, r5, s1, cx))
           (q.1, q.2.1, strip q.2.2.1, q.2.2.2.1, q.2.2.2.2)) := by
      intro ck0 x
      obtain ⟨h2, xe, comp⟩ := x
      cases ck0 with
      | some pe => rfl
      | none =>
        simp only
        by_cases hmf : mf > 0 ∧ hdr.len > mf
        · simp only [hmf, and_self, if_true]; rfl
        · simp only [hmf, if_false]
          cases xe with
          | some pe => rfl
          | none =>
            simp only [Rd.fragmented]
            by_cases hb : (stIs st stFragmented && opIsControl h2.op) = true
            · have h := drainRaw_strip ⟨st, sk, ck, ex, comp, mf, oc, hf, hdr.len, hdr.masked, hdr.mask, 0, false, u8⟩ s1 s1.fuel
              simp only [strip] at h
              simp only [hb, if_true]
              rw [h]
              simp [strip]
            · simp only [hb, if_false]
              by_cases hfr : stIs st stFragmented = true <;> simp [hfr, strip]
    exact key _ _

/-! ### what NextFrame does to the fields the validating reader depends on -/

theorem rawRead_only_rawN (r : Rd) (s : Src) (k : Nat) :
    (r.rawRead s k).2.2.1 = { r with rawN := (r.rawRead s k).2.2.1.rawN } := by
  unfold Rd.rawRead; split <;> rfl

theorem drainRaw_only_rawN (r : Rd) (s : Src) (n : Nat) :
    (r.drainRaw s n).2.1 = { r with rawN := (r.drainRaw s n).2.1.rawN } := by
  induction n generalizing r s with
  | zero => rfl
  | succ n ih =>
    unfold Rd.drainRaw
    have h0 := rawRead_only_rawN r s 32768
    rcases hr : r.rawRead s 32768 with ⟨got, e, r', s'⟩
    rw [hr] at h0
    simp only at h0 ⊢
    cases e with
    | some f => cases f <;> exact h0
    | none =>
      simp only
      split
      · exact h0
      · have := ih r' s'
        rw [this, h0]

/-- Either no data frame was entered (header error, refusal, or an intermediate control frame
    drained): the frame flag, opcode and state are as before; or a data frame `h` was entered: the
    validating reader is switched on exactly for text. -/
theorem nextFrame_fields (r : Rd) (s : Src) (cx : Ctx) :
    (r.nextFrame s cx none).2.2.1.checkUTF8 = r.checkUTF8 ∧ (r.nextFrame s cx none).2.2.1.utf8 = r.utf8
    ∧ (((r.nextFrame s cx none).2.2.1.hasFrame = r.hasFrame ∧ (r.nextFrame s cx none).2.2.1.opCode = r.opCode
          ∧ (r.nextFrame s cx none).2.2.1.state = r.state)
       ∨ ((r.nextFrame s cx none).2.1 = none ∧ (r.nextFrame s cx none).2.2.1.hasFrame = true
          ∧ ∃ h : Header, (r.nextFrame s cx none).2.2.1.utf8on = (r.checkUTF8 && (h.op == opText || (r.fragmented && r.opCode == opText)))
              ∧ (r.nextFrame s cx none).2.2.1.opCode = (if r.fragmented then r.opCode else h.op)
              ∧ (r.nextFrame s cx none).1 = some h)) := by
  obtain ⟨st, sk, ck, ex, co, mf, oc, hf, rn, mk, msk, cp, uon, u8⟩ := r
  unfold Rd.nextFrame
  rcases readHeaderUtil s with ⟨res, s1⟩
  cases res with
  | error e =>
    cases e with
    | io f => cases f <;> exact ⟨rfl, rfl, Or.inl ⟨rfl, rfl, rfl⟩⟩
    | _ => exact ⟨rfl, rfl, Or.inl ⟨rfl, rfl, rfl⟩⟩
  | ok hdr =>
    simp only
    generalize (if sk = true then none else checkHeader hdr st) = ck0
    cases ck0 with
    | some pe => exact ⟨rfl, rfl, Or.inl ⟨rfl, rfl, rfl⟩⟩
    | none =>
      simp only
      by_cases hmf : mf > 0 ∧ hdr.len > mf
      · rw [if_pos hmf]; exact ⟨rfl, rfl, Or.inl ⟨rfl, rfl, rfl⟩⟩
      · rw [if_neg hmf]
        generalize (if ex = true then unsetBits co hdr else (hdr, none, co)) = x
        obtain ⟨h2, xe, comp⟩ := x
        cases xe with
        | some pe => exact ⟨rfl, rfl, Or.inl ⟨rfl, rfl, rfl⟩⟩
        | none =>
          simp only [Rd.fragmented]
          by_cases hb : (stIs st stFragmented && opIsControl h2.op) = true
          · simp only [hb, if_true]
            have h := drainRaw_only_rawN ⟨st, sk, ck, ex, comp, mf, oc, hf, hdr.len, hdr.masked, hdr.mask, 0, false, u8⟩ s1 s1.fuel
            rw [h]
            exact ⟨rfl, rfl, Or.inl ⟨rfl, rfl, rfl⟩⟩
          · simp only [hb, if_false]
            refine ⟨?_, ?_, Or.inr ⟨rfl, rfl, h2, ?_, ?_, rfl⟩⟩ <;>
              (by_cases hfr : stIs st stFragmented = true <;> simp [hfr])

/-! ### Reader.Read split into its two halves -/

/-- the second half of Reader.Read: one read of the frame stack and the end-of-frame decisions -/
def tail (r1 : Rd) (s1 : Src) (cx1 : Ctx) (k : Nat) : Option (Bytes × Nat × Option RErr × Rd × Src × Ctx) :=
  match r1.frameRead s1 k with
  | none => none
  | some (bytes, n, e, r2, s2) =>
    match e with
    | some .eof | none =>
      if e.isNone && r2.rawN != 0 then some (bytes, n, none, r2, s2, cx1)
      else if r2.rawN != 0 then some (bytes, n, some .ueof, r2, s2, cx1)
      else if r2.fragmented then some (bytes, n, none, r2.resetFragment, s2, cx1)
      else if r2.checkUTF8 && !r2.utf8.valid then some (bytes, r2.utf8.accepted, some .utf8, r2, s2, cx1)
      else some (bytes, n, some .eof, r2.reset, s2, cx1)
    | some e =>
      if e != .utf8 && r2.rawN == 0 && !r2.fragmented && r2.checkUTF8 && !r2.utf8.valid then
        some (bytes, r2.utf8.accepted, some .utf8, r2, s2, cx1)
      else some (bytes, n, some e, r2, s2, cx1)

theorem read_has (r : Rd) (s : Src) (cx : Ctx) (k : Nat) (h : r.hasFrame = true) :
    r.read s cx k none = tail r s cx k := by
  unfold Rd.read tail
  simp only [h, Bool.not_true, Bool.false_eq_true, if_false]
  rfl

theorem read_idle (r : Rd) (s : Src) (cx : Ctx) (k : Nat) (h : r.hasFrame = false) (hf : r.fragmented = false) :
    r.read s cx k none = some ([], 0, some .noAdvance, r, s, cx) := by
  unfold Rd.read
  simp [h, hf]

theorem read_next (r : Rd) (s : Src) (cx : Ctx) (k : Nat) (h : r.hasFrame = false) (hf : r.fragmented = true) :
    r.read s cx k none =
      match (r.nextFrame s cx none).2.1 with
      | some e => some ([], 0, some e, (r.nextFrame s cx none).2.2.1, (r.nextFrame s cx none).2.2.2.1, (r.nextFrame s cx none).2.2.2.2)
      | none =>
        if (r.nextFrame s cx none).2.2.1.hasFrame = false then
          some ([], 0, none, (r.nextFrame s cx none).2.2.1, (r.nextFrame s cx none).2.2.2.1, (r.nextFrame s cx none).2.2.2.2)
        else tail (r.nextFrame s cx none).2.2.1 (r.nextFrame s cx none).2.2.2.1 (r.nextFrame s cx none).2.2.2.2 k := by
  unfold Rd.read tail
  simp only [h, hf, Bool.not_false, Bool.not_true, if_true, Bool.false_eq_true, if_false]
  rcases r.nextFrame s cx none with ⟨hd, e, r1, s1, cx1⟩
  cases e with
  | some e => rfl
  | none =>
    simp only
    cases hh : r1.hasFrame
    · simp only [Bool.not_false, if_true]
    · simp only [Bool.not_true, Bool.false_eq_true, if_false]
      rfl

/-! ### the simulation -/

/-- the checking reader in the middle of a text message whose delivered bytes so far have led
    Table 3-7 to position `σ` -/
structure TM (σ : U8) (r : Rd) : Prop where
  chk : r.checkUTF8 = true
  st : r.utf8.state = u8Enc σ
  ok : σ ≠ .rej
  on : r.hasFrame = true → r.utf8on = true
  op : r.fragmented = true → r.opCode = opText
  mid : r.hasFrame = true ∨ r.fragmented = true

/-- outcome of one Read of the checking reader (`real`) against the non-checking one
    (`bytes, n, e, q, s', cx'`): the same, or ErrInvalidUTF8 exactly when the text left Table 3-7 or the
    message ended (`e ≠ none`: io.EOF, or the transport's failure arriving with the last bytes) inside a
    character -/
def SimOut (σ : U8) (real : Option (Bytes × Nat × Option RErr × Rd × Src × Ctx))
    (bytes : Bytes) (n : Nat) (e : Option RErr) (q : Rd) (s' : Src) (cx' : Ctx) : Prop :=
  n = bytes.length ∧
  ((u8Run σ bytes ≠ .rej ∧ (e = some .eof → u8Run σ bytes = .acc)
      ∧ ∃ r', real = some (bytes, n, e, r', s', cx') ∧ strip r' = q ∧ (e = none → TM (u8Run σ bytes) r'))
   ∨ ((u8Run σ bytes = .rej ∨ (e ≠ none ∧ u8Run σ bytes ≠ .acc))
      ∧ ∃ m r', real = some (bytes, m, some .utf8, r', s', cx') ∧ m ≤ bytes.length ∧ (bytes ≠ [] → m < bytes.length)))

theorem frameRead_strip_fix (r : Rd) (s : Src) (k : Nat) (p : Bytes) (n : Nat) (e : Option RErr) (q : Rd) (s' : Src)
    (h : (strip r).frameRead s k = some (p, n, e, q, s')) :
    strip q = q ∧ n = p.length ∧ q.state = r.state ∧ q.opCode = r.opCode ∧ q.hasFrame = r.hasFrame := by
  unfold Rd.frameRead at h
  rw [rawRead_strip] at h
  rcases hr : r.rawRead s k with ⟨got, e0, r1, s1⟩
  have h0 := rawRead_only_rawN r s k
  rw [hr] at h h0
  simp only at h h0
  obtain ⟨st, sk, ck, ex, co, mf, oc, hf, rn, mk, msk, cp, uon, u8⟩ := r
  rw [h0] at h
  simp only [strip] at h
  cases mk
  · simp only [Bool.false_eq_true, if_false, Option.some.injEq, Prod.mk.injEq] at h
    obtain ⟨rfl, rfl, _, rfl, _⟩ := h
    exact ⟨rfl, rfl, rfl, rfl, rfl⟩
  · simp only [if_true] at h
    cases hc : cipher got msk cp with
    | none => simp [hc] at h
    | some pl =>
      simp only [hc, Bool.false_eq_true, if_false, Option.some.injEq, Prod.mk.injEq] at h
      obtain ⟨rfl, rfl, _, rfl, _⟩ := h
      exact ⟨rfl, rfl, rfl, rfl, rfl⟩

theorem u8Enc_acc (x : U8) : (u8Enc x == utf8Accept) = true ↔ x = .acc := by
  constructor
  · intro h; exact u8Enc_inj (by simpa [utf8Accept, u8Enc] using h)
  · rintro rfl; rfl

theorem feed_ok (u : Utf8Rd) (σ : U8) (hs : u.state = u8Enc σ) (p : Bytes) (hp : Bytes.WF p) (h : u8Run σ p ≠ .rej) :
    ∃ a, u.feed p = some (p.length, false, ⟨u8Enc (u8Run σ p), a⟩)
      ∧ a ≤ p.length ∧ (p ≠ [] → u8Run σ p ≠ .acc → a < p.length) := by
  unfold Utf8Rd.feed; rw [hs]
  obtain ⟨a, ha, hle, hlt⟩ := go_ok u σ 0 0 p hp h (Nat.le_refl _)
  exact ⟨a, by rw [ha]; simp, by simpa using hle, fun h1 h2 => by simpa using hlt h1 h2⟩

theorem feed_bad (u : Utf8Rd) (σ : U8) (hs : u.state = u8Enc σ) (p : Bytes) (hp : Bytes.WF p) (h0 : σ ≠ .rej)
    (h : u8Run σ p = .rej) : ∃ n u', u.feed p = some (n, true, u') ∧ n < p.length := by
  unfold Utf8Rd.feed; rw [hs]
  obtain ⟨n, u', h1, h2⟩ := go_bad u σ 0 0 p hp h0 h (Nat.le_refl _)
  exact ⟨n, u', h1, by simpa using h2⟩

/-- the second half of Read, checking reader against non-checking reader -/
theorem tail_sim (σ : U8) (r : Rd) (s : Src) (cx : Ctx) (k : Nat) (htm : TM σ r) (hhas : r.hasFrame = true)
    (bytes : Bytes) (n : Nat) (e : Option RErr) (q : Rd) (s' : Src) (cx' : Ctx)
    (h : tail (strip r) s cx k = some (bytes, n, e, q, s', cx')) (hwf : Bytes.WF bytes) :
    SimOut σ (tail r s cx k) bytes n e q s' cx' := by
  have hon : r.utf8on = true := htm.on hhas
  unfold tail at h
  rcases hfr : (strip r).frameRead s k with _ | ⟨plain, n0, e0, q2, s2⟩
  · rw [hfr] at h; simp at h
  obtain ⟨hq2, hn0, hst2, hop2, hhf2⟩ := frameRead_strip_fix r s k plain n0 e0 q2 s2 hfr
  rw [hfr] at h
  simp only at h
  have hq2c : q2.checkUTF8 = false := by rw [← hq2]; rfl
  -- every branch returns (plain, n0, …, …, s2, cx)
  have hshape : bytes = plain ∧ s' = s2 ∧ cx' = cx ∧ n = n0 := by
    cases e0 with
    | none =>
      simp only [hq2c, Bool.false_and, Bool.false_eq_true, if_false] at h
      split at h <;> (try split at h) <;> (try split at h) <;>
        (simp only [Option.some.injEq, Prod.mk.injEq] at h; obtain ⟨h1, h2, _, _, h5, h6⟩ := h; exact ⟨h1.symm, h5.symm, h6.symm, h2.symm⟩)
    | some e1 =>
      cases e1 <;> simp only [hq2c, Bool.false_and, Bool.and_false, Bool.false_eq_true, if_false] at h <;>
        (try (split at h <;> (try split at h) <;> (try split at h))) <;>
        (simp only [Option.some.injEq, Prod.mk.injEq] at h; obtain ⟨h1, h2, _, _, h5, h6⟩ := h; exact ⟨h1.symm, h5.symm, h6.symm, h2.symm⟩)
  obtain ⟨rfl, rfl, rfl, rfl⟩ := hshape
  subst hn0
  refine ⟨rfl, ?_⟩
  by_cases hrej : u8Run σ bytes = .rej
  · -- the text leaves Table 3-7 inside this Read
    obtain ⟨m, u', hf, hmlt⟩ := feed_bad r.utf8 σ htm.st bytes hwf htm.ok hrej
    have hreal : r.frameRead s k = some (bytes, m, some .utf8, { restore r q2 with utf8 := u' }, s') := by
      rw [frameRead_eq, hfr]; simp only [hon, if_true, hf]
    right
    refine ⟨Or.inl hrej, m, { restore r q2 with utf8 := u' }, ?_, Nat.le_of_lt hmlt, fun _ => hmlt⟩
    unfold tail; rw [hreal]; simp
  · obtain ⟨a, hf, hale, halt⟩ := feed_ok r.utf8 σ htm.st bytes hwf hrej
    obtain ⟨R, hR⟩ : ∃ R : Rd, R = { restore r q2 with utf8 := ⟨u8Enc (u8Run σ bytes), a⟩ } := ⟨_, rfl⟩
    have hreal : r.frameRead s k = some (bytes, bytes.length, e0, R, s') := by
      rw [frameRead_eq, hfr, hR]; simp only [hon, if_true, hf, Bool.false_eq_true, if_false]
    have hRs : strip R = q2 := by rw [hR, ← hq2]; cases q2; rfl
    have hRraw : R.rawN = q2.rawN := by rw [hR]; rfl
    have hRfr : R.fragmented = q2.fragmented := by rw [hR]; rfl
    have hRchk : R.checkUTF8 = true := by rw [hR]; exact htm.chk
    have hRval : R.utf8.valid = decide (u8Run σ bytes = .acc) := by
      rw [hR]; simp only [restore, Utf8Rd.valid]
      by_cases hacc : u8Run σ bytes = .acc
      · rw [hacc]; rfl
      · have : (u8Enc (u8Run σ bytes) == utf8Accept) = false := by
          cases hb : (u8Enc (u8Run σ bytes) == utf8Accept)
          · rfl
          · exact absurd ((u8Enc_acc _).mp hb) hacc
        rw [this]; simp [hacc]
    have hRacc : R.utf8.accepted = a := by rw [hR]
    have hRtm : TM (u8Run σ bytes) R := by
      refine ⟨hRchk, by rw [hR], hrej, fun _ => by rw [hR]; exact hon, fun hfr2 => ?_,
        Or.inl (by rw [hR]; exact hhf2.trans hhas)⟩
      have h1 : R.opCode = r.opCode := by rw [hR]; exact hop2
      rw [h1]; apply htm.op
      have h2 : R.state = r.state := by rw [hR]; exact hst2
      simpa [Rd.fragmented, h2] using hfr2
    have hRrf : strip R.resetFragment = q2.resetFragment := by rw [← hRs]; cases R; rfl
    have hRre : strip R.reset = q2.reset := by rw [← hRs]; cases R; rfl
    have hRtmf : q2.fragmented = true → TM (u8Run σ bytes) R.resetFragment := fun c3 =>
      ⟨hRtm.chk, hRtm.st, hRtm.ok, fun hh => by simp [Rd.resetFragment] at hh, hRtm.op,
        Or.inr (by rw [← hRfr] at c3; exact c3)⟩
    unfold tail; rw [hreal]
    simp only
    -- the end-of-frame decisions, shared by "no error" and "io.EOF from the limited reader"
    have fin : ∀ (isn : Bool),
        (if (isn && q2.rawN != 0) = true then some (bytes, bytes.length, (none : Option RErr), q2, s', cx')
          else if (q2.rawN != 0) = true then some (bytes, bytes.length, some .ueof, q2, s', cx')
          else if q2.fragmented = true then some (bytes, bytes.length, none, q2.resetFragment, s', cx')
          else some (bytes, bytes.length, some .eof, q2.reset, s', cx')) = some (bytes, bytes.length, e, q, s', cx') →
        (u8Run σ bytes ≠ .rej ∧ (e = some .eof → u8Run σ bytes = .acc)
          ∧ ∃ r', (if (isn && R.rawN != 0) = true then some (bytes, bytes.length, (none : Option RErr), R, s', cx')
              else if (R.rawN != 0) = true then some (bytes, bytes.length, some .ueof, R, s', cx')
              else if R.fragmented = true then some (bytes, bytes.length, none, R.resetFragment, s', cx')
              else if (R.checkUTF8 && !R.utf8.valid) = true then some (bytes, R.utf8.accepted, some .utf8, R, s', cx')
              else some (bytes, bytes.length, some .eof, R.reset, s', cx')) = some (bytes, bytes.length, e, r', s', cx')
            ∧ strip r' = q ∧ (e = none → TM (u8Run σ bytes) r'))
        ∨ ((u8Run σ bytes = .rej ∨ (e ≠ none ∧ u8Run σ bytes ≠ .acc))
          ∧ ∃ m r', (if (isn && R.rawN != 0) = true then some (bytes, bytes.length, (none : Option RErr), R, s', cx')
              else if (R.rawN != 0) = true then some (bytes, bytes.length, some .ueof, R, s', cx')
              else if R.fragmented = true then some (bytes, bytes.length, none, R.resetFragment, s', cx')
              else if (R.checkUTF8 && !R.utf8.valid) = true then some (bytes, R.utf8.accepted, some .utf8, R, s', cx')
              else some (bytes, bytes.length, some .eof, R.reset, s', cx')) = some (bytes, m, some .utf8, r', s', cx')
              ∧ m ≤ bytes.length ∧ (bytes ≠ [] → m < bytes.length)) := by
      intro isn hh
      rw [hRraw, hRfr, hRchk, hRval]
      by_cases c1 : (isn && q2.rawN != 0) = true
      · rw [if_pos c1] at hh ⊢
        simp only [Option.some.injEq, Prod.mk.injEq, true_and] at hh
        obtain ⟨rfl, rfl, _⟩ := hh
        exact Or.inl ⟨hrej, (fun hh => by cases hh), R, rfl, hRs, fun _ => hRtm⟩
      · rw [if_neg c1] at hh ⊢
        by_cases c2 : (q2.rawN != 0) = true
        · rw [if_pos c2] at hh ⊢
          simp only [Option.some.injEq, Prod.mk.injEq, true_and] at hh
          obtain ⟨rfl, rfl, _⟩ := hh
          exact Or.inl ⟨hrej, (fun hh => by cases hh), R, rfl, hRs, (fun hh => by cases hh)⟩
        · rw [if_neg c2] at hh ⊢
          by_cases c3 : q2.fragmented = true
          · rw [if_pos c3] at hh ⊢
            simp only [Option.some.injEq, Prod.mk.injEq, true_and] at hh
            obtain ⟨rfl, rfl, _⟩ := hh
            exact Or.inl ⟨hrej, (fun hh => by cases hh), R.resetFragment, rfl, hRrf, fun _ => hRtmf c3⟩
          · rw [if_neg c3] at hh ⊢
            simp only [Option.some.injEq, Prod.mk.injEq, true_and] at hh
            obtain ⟨rfl, rfl, _⟩ := hh
            by_cases hacc : u8Run σ bytes = .acc
            · have hc : ¬ (true && !decide (u8Run σ bytes = U8.acc)) = true := by simp [hacc]
              rw [if_neg hc]
              exact Or.inl ⟨hrej, (fun _ => hacc), R.reset, rfl, hRre, (fun hh => by cases hh)⟩
            · have hc : (true && !decide (u8Run σ bytes = U8.acc)) = true := by simp [hacc]
              rw [if_pos hc]
              exact Or.inr ⟨Or.inr ⟨by simp, hacc⟩, _, R, rfl, by rw [hRacc]; exact hale, fun hne => by rw [hRacc]; exact halt hne hacc⟩
    -- any other error of the frame stack (the transport's failure, …): handed on, unless it came with
    -- the last bytes of a message that ends inside a character
    have oth : ∀ x : RErr, x ≠ .eof →
        (u8Run σ bytes ≠ .rej ∧ (some x = some .eof → u8Run σ bytes = .acc)
          ∧ ∃ r', (if (x != RErr.utf8 && R.rawN == 0 && !R.fragmented && R.checkUTF8 && !R.utf8.valid) = true then
                some (bytes, R.utf8.accepted, some RErr.utf8, R, s', cx')
              else some (bytes, bytes.length, some x, R, s', cx')) = some (bytes, bytes.length, some x, r', s', cx')
            ∧ strip r' = q2 ∧ (some x = none → TM (u8Run σ bytes) r'))
        ∨ ((u8Run σ bytes = .rej ∨ (some x ≠ none ∧ u8Run σ bytes ≠ .acc))
          ∧ ∃ m r', (if (x != RErr.utf8 && R.rawN == 0 && !R.fragmented && R.checkUTF8 && !R.utf8.valid) = true then
                some (bytes, R.utf8.accepted, some RErr.utf8, R, s', cx')
              else some (bytes, bytes.length, some x, R, s', cx')) = some (bytes, m, some .utf8, r', s', cx')
              ∧ m ≤ bytes.length ∧ (bytes ≠ [] → m < bytes.length)) := by
      intro x hx
      by_cases hcond : (x != RErr.utf8 && R.rawN == 0 && !R.fragmented && R.checkUTF8 && !R.utf8.valid) = true
      · rw [if_pos hcond]
        simp only [Bool.and_eq_true] at hcond
        obtain ⟨_, hv⟩ := hcond
        have hnacc : u8Run σ bytes ≠ .acc := by
          intro hacc
          rw [hRval, hacc] at hv
          simp at hv
        exact Or.inr ⟨Or.inr ⟨by simp, hnacc⟩, _, R, rfl, by rw [hRacc]; exact hale, fun hne => by rw [hRacc]; exact halt hne hnacc⟩
      · rw [if_neg hcond]
        exact Or.inl ⟨hrej, (fun hh => absurd (Option.some.inj hh) hx), R, rfl, hRs, (fun hh => by cases hh)⟩
    cases e0 with
    | none =>
      simp only [hq2c, Bool.false_and, Bool.false_eq_true, if_false, Option.isNone_none] at h ⊢
      exact fin true h
    | some e1 =>
      cases e1 with
      | eof =>
        simp only [hq2c, Bool.false_and, Bool.false_eq_true, if_false, Option.isNone_some] at h ⊢
        exact fin false h
      | _ =>
        simp only [hq2c, Bool.false_and, Bool.and_false, Bool.false_eq_true, if_false, Option.some.injEq, Prod.mk.injEq, true_and] at h
        obtain ⟨rfl, rfl, _⟩ := h
        dsimp only
        exact oth _ (by simp)

theorem drainRaw_ne_eof (r : Rd) (s : Src) (n : Nat) : (r.drainRaw s n).1 ≠ some .eof := by
  induction n generalizing r s with
  | zero => simp [Rd.drainRaw]
  | succ n ih =>
    unfold Rd.drainRaw
    rcases r.rawRead s 32768 with ⟨got, e, r', s'⟩
    simp only
    cases e with
    | some f => cases f <;> simp
    | none =>
      simp only
      split
      · simp
      · exact ih r' s'

/-- In the middle of a fragmented message NextFrame never reports a clean io.EOF. -/
theorem nextFrame_ne_eof (r : Rd) (s : Src) (cx : Ctx) (hf : r.fragmented = true) :
    (r.nextFrame s cx none).2.1 ≠ some .eof := by
  obtain ⟨st, sk, ck, ex, co, mf, oc, hf0, rn, mk, msk, cp, uon, u8⟩ := r
  simp only [Rd.fragmented] at hf
  unfold Rd.nextFrame
  rcases readHeaderUtil s with ⟨res, s1⟩
  cases res with
  | error e =>
    cases e with
    | io f => cases f <;> simp [Rd.fragmented, hf]
    | _ => simp
  | ok hdr =>
    simp only
    generalize (if sk = true then none else checkHeader hdr st) = ck0
    cases ck0 with
    | some pe => simp
    | none =>
      simp only
      by_cases hmf : mf > 0 ∧ hdr.len > mf
      · rw [if_pos hmf]; simp
      · rw [if_neg hmf]
        generalize (if ex = true then unsetBits co hdr else (hdr, none, co)) = x
        obtain ⟨h2, xe, comp⟩ := x
        cases xe with
        | some pe => simp
        | none =>
          simp only [Rd.fragmented]
          by_cases hb : (stIs st stFragmented && opIsControl h2.op) = true
          · simp only [hb, if_true]
            exact drainRaw_ne_eof _ _ _
          · simp only [hb]
            simp

/-- **One Read, anywhere inside a text message.** -/
theorem read_sim (σ : U8) (r : Rd) (s : Src) (cx : Ctx) (k : Nat) (htm : TM σ r)
    (bytes : Bytes) (n : Nat) (e : Option RErr) (q : Rd) (s' : Src) (cx' : Ctx)
    (h : (strip r).read s cx k none = some (bytes, n, e, q, s', cx')) (hwf : Bytes.WF bytes) :
    SimOut σ (r.read s cx k none) bytes n e q s' cx' := by
  by_cases hhas : r.hasFrame = true
  · rw [read_has _ _ _ _ (by exact hhas)] at h
    rw [read_has _ _ _ _ hhas]
    exact tail_sim σ r s cx k htm hhas bytes n e q s' cx' h hwf
  · have hhas' : r.hasFrame = false := by simpa using hhas
    have hfr : r.fragmented = true := by
      rcases htm.mid with h1 | h1
      · exact absurd h1 hhas
      · exact h1
    rw [read_next (strip r) s cx k hhas' hfr, nextFrame_strip] at h
    rw [read_next r s cx k hhas' hfr]
    have hne := nextFrame_ne_eof r s cx hfr
    obtain ⟨f1, f2, f3⟩ := nextFrame_fields r s cx
    rcases hN : r.nextFrame s cx none with ⟨hd, e1, r1, s1, cx1⟩
    rw [hN] at h hne f1 f2 f3
    simp only at h hne f1 f2 f3 ⊢
    cases e1 with
    | some x =>
      simp only [Option.some.injEq, Prod.mk.injEq] at h
      obtain ⟨rfl, rfl, rfl, rfl, rfl, rfl⟩ := h
      refine ⟨rfl, Or.inl ⟨by simpa [u8Run] using htm.ok, ?_, r1, rfl, rfl, (fun hh => by cases hh)⟩⟩
      intro hh
      simp only [Option.some.injEq] at hh
      exact absurd (by rw [hh]) hne
    | none =>
      simp only at h ⊢
      have hsh : (strip r1).hasFrame = r1.hasFrame := rfl
      rw [hsh] at h
      by_cases hh1 : r1.hasFrame = false
      · rw [if_pos hh1] at h ⊢
        simp only [Option.some.injEq, Prod.mk.injEq] at h
        obtain ⟨rfl, rfl, rfl, rfl, rfl, rfl⟩ := h
        refine ⟨rfl, Or.inl ⟨by simpa [u8Run] using htm.ok, (fun hh => by cases hh), r1, rfl, rfl, fun _ => ?_⟩⟩
        simp only [u8Run, List.foldl_nil]
        rcases f3 with ⟨g1, g2, g3⟩ | ⟨_, g2, _⟩
        · refine ⟨by rw [f1]; exact htm.chk, by rw [f2]; exact htm.st, htm.ok, (fun hx => by rw [hh1] at hx; cases hx), fun hx => ?_,
            Or.inr (by simpa [Rd.fragmented, g3] using hfr)⟩
          rw [g2]; apply htm.op
          simpa [Rd.fragmented, g3] using hx
        · rw [hh1] at g2; cases g2
      · rw [if_neg hh1] at h ⊢
        have hh1' : r1.hasFrame = true := by simpa using hh1
        have htm1 : TM σ r1 := by
          rcases f3 with ⟨g1, _, _⟩ | ⟨_, _, hx, g4, g5, _⟩
          · rw [hhas'] at g1; rw [g1] at hh1'; cases hh1'
          · have hop := htm.op hfr
            refine ⟨by rw [f1]; exact htm.chk, by rw [f2]; exact htm.st, htm.ok, fun _ => ?_, fun _ => ?_, Or.inl hh1'⟩
            · rw [g4, htm.chk, hfr, hop]; simp
            · rw [g5, hfr]; simpa using hop
        exact tail_sim σ r1 s1 cx1 k htm1 hh1' bytes n e q s' cx' h hwf

theorem wf_left {a b : Bytes} (h : Bytes.WF (a ++ b)) : Bytes.WF a := fun x hx => h x (List.mem_append_left _ hx)
theorem wf_right {a b : Bytes} (h : Bytes.WF (a ++ b)) : Bytes.WF b := fun x hx => h x (List.mem_append_right _ hx)

theorem u8Run_rej_of_prefix (σ : U8) (a b : Bytes) (h : u8Run σ a = .rej) : u8Run σ (a ++ b) = .rej := by
  rw [u8Run_append, h, u8Run_rej]

/-- the non-checking reader reports every byte it hands out -/
theorem tail_strip_n (r : Rd) (s : Src) (cx : Ctx) (k : Nat) (bytes : Bytes) (n : Nat) (e : Option RErr) (q : Rd)
    (s' : Src) (cx' : Ctx) (h : tail (strip r) s cx k = some (bytes, n, e, q, s', cx')) : n = bytes.length := by
  unfold tail at h
  rcases hfr : (strip r).frameRead s k with _ | ⟨p, n0, e0, q2, s2⟩
  · rw [hfr] at h; simp at h
  obtain ⟨hq2, hn0, _, _, _⟩ := frameRead_strip_fix r s k p n0 e0 q2 s2 hfr
  have hq2c : q2.checkUTF8 = false := by rw [← hq2]; rfl
  rw [hfr] at h
  cases e0 with
  | none =>
    simp only [hq2c, Bool.false_and, Bool.false_eq_true, if_false] at h
    split at h <;> (try split at h) <;> (try split at h) <;>
      (simp only [Option.some.injEq, Prod.mk.injEq] at h; obtain ⟨h1, h2, _⟩ := h; rw [← h1, ← h2]; exact hn0)
  | some e1 =>
    cases e1 <;> simp only [hq2c, Bool.false_and, Bool.and_false, Bool.false_eq_true, if_false] at h <;>
      (try (split at h <;> (try split at h) <;> (try split at h))) <;>
      (simp only [Option.some.injEq, Prod.mk.injEq] at h; obtain ⟨h1, h2, _⟩ := h; rw [← h1, ← h2]; exact hn0)

theorem read_strip_n (r : Rd) (s : Src) (cx : Ctx) (k : Nat) (bytes : Bytes) (n : Nat) (e : Option RErr) (q : Rd)
    (s' : Src) (cx' : Ctx) (h : (strip r).read s cx k none = some (bytes, n, e, q, s', cx')) : n = bytes.length := by
  by_cases hhas : (strip r).hasFrame = true
  · rw [read_has _ _ _ _ hhas] at h
    exact tail_strip_n r s cx k bytes n e q s' cx' h
  · have hhas' : (strip r).hasFrame = false := by simpa using hhas
    by_cases hfrg : (strip r).fragmented = true
    · rw [read_next _ _ _ _ hhas' hfrg, nextFrame_strip] at h
      rcases hN : r.nextFrame s cx none with ⟨hd, ee, rr, ss, cc⟩
      rw [hN] at h
      simp only at h
      cases ee with
      | some x =>
        simp only [Option.some.injEq, Prod.mk.injEq] at h
        obtain ⟨h1, h2, _⟩ := h; rw [← h1, ← h2]; rfl
      | none =>
        by_cases hh1 : (strip rr).hasFrame = false
        · rw [if_pos hh1] at h
          simp only [Option.some.injEq, Prod.mk.injEq] at h
          obtain ⟨h1, h2, _⟩ := h; rw [← h1, ← h2]; rfl
        · rw [if_neg hh1] at h
          exact tail_strip_n rr ss cc k bytes n e q s' cx' h
    · have hfrg' : (strip r).fragmented = false := by simpa using hfrg
      rw [read_idle _ _ _ _ hhas' hfrg'] at h
      simp only [Option.some.injEq, Prod.mk.injEq] at h
      obtain ⟨h1, h2, _⟩ := h; rw [← h1, ← h2]; rfl

/-- **Any sequence of Reads inside a text message.** Whatever the non-checking reader delivers
    (`out`, ending `e`), the checking reader delivers the same and ends the same — as long as `out`
    stays inside Table 3-7 and, if the message ended (`io.EOF`), ended between characters. Otherwise it
    stops with ErrInvalidUTF8, having handed out a prefix of `out`. -/
theorem reads_sim (ks : List Nat) : ∀ (σ : U8) (r : Rd) (s : Src) (cx : Ctx), TM σ r →
    ∀ (out : Bytes) (e : Option RErr) (q : Rd) (s' : Src) (cx' : Ctx),
      reads (strip r) s cx ks = some (out, e, q, s', cx') → Bytes.WF out →
      (u8Run σ out ≠ .rej ∧ (e = some .eof → u8Run σ out = .acc)
        ∧ ∃ r', reads r s cx ks = some (out, e, r', s', cx') ∧ strip r' = q ∧ (e = none → TM (u8Run σ out) r'))
      ∨ ((u8Run σ out = .rej ∨ (e ≠ none ∧ u8Run σ out ≠ .acc))
        ∧ ∃ out' r' s'' cx'', reads r s cx ks = some (out', some .utf8, r', s'', cx'') ∧ ∃ more, out = out' ++ more) := by
  induction ks with
  | nil =>
    intro σ r s cx htm out e q s' cx' h _
    simp only [reads, Option.some.injEq, Prod.mk.injEq] at h
    obtain ⟨rfl, rfl, rfl, rfl, rfl⟩ := h
    exact Or.inl ⟨by simpa [u8Run] using htm.ok, (fun hh => by cases hh), r, rfl, rfl, fun _ => by simpa [u8Run] using htm⟩
  | cons k ks ih =>
    intro σ r s cx htm out e q s' cx' h hwf
    simp only [reads] at h ⊢
    rcases hrd : (strip r).read s cx k none with _ | ⟨bytes, n, e1, q1, s1, cx1⟩
    · rw [hrd] at h; simp at h
    rw [hrd] at h
    simp only at h
    have hn : n = bytes.length := read_strip_n r s cx k bytes n e1 q1 s1 cx1 hrd
    subst hn
    rw [List.take_length] at h
    cases e1 with
    | some x =>
      -- the non-checking reader stops here
      simp only [Option.some.injEq, Prod.mk.injEq] at h
      obtain ⟨rfl, rfl, rfl, rfl, rfl⟩ := h
      obtain ⟨_, hsim⟩ := read_sim σ r s cx k htm bytes bytes.length (some x) q1 s1 cx1 hrd hwf
      rcases hsim with ⟨a1, a2, r', a3, a4, _⟩ | ⟨a1, m, r', a3, _, _⟩
      · left
        refine ⟨a1, a2, r', ?_, a4, (fun hh => by cases hh)⟩
        rw [a3]; simp
      · right
        refine ⟨a1, bytes.take m, r', s1, cx1, ?_, bytes.drop m, (List.take_append_drop m bytes).symm⟩
        rw [a3]
    | none =>
      simp only at h
      rcases hrs : reads q1 s1 cx1 ks with _ | ⟨o, e2, r2, s2, cx2⟩
      · rw [hrs] at h; simp at h
      rw [hrs] at h
      simp only [Option.some.injEq, Prod.mk.injEq] at h
      obtain ⟨rfl, rfl, rfl, rfl, rfl⟩ := h
      obtain ⟨_, hsim⟩ := read_sim σ r s cx k htm bytes bytes.length none q1 s1 cx1 hrd (wf_left hwf)
      rcases hsim with ⟨a1, _, r', a3, a4, a5⟩ | ⟨a1, m, r', a3, _, _⟩
      · -- this Read went the same way; continue from the new state
        have htm' := a5 rfl
        rw [← a4] at hrs
        rcases ih (u8Run σ bytes) r' s1 cx1 htm' o e2 r2 s2 cx2 hrs (wf_right hwf) with
          ⟨b1, b2, r'', b3, b4, b5⟩ | ⟨b1, o', r'', s'', cx'', b3, more, b4⟩
        · left
          refine ⟨by rw [u8Run_append]; exact b1, fun hh => by rw [u8Run_append]; exact b2 hh, r'', ?_, b4,
            fun hh => by rw [u8Run_append]; exact b5 hh⟩
          rw [a3]; simp only [List.take_length, b3]
        · right
          refine ⟨?_, bytes ++ o', r'', s'', cx'', ?_, more, by rw [b4, List.append_assoc]⟩
          · rcases b1 with b1 | ⟨b1, b2⟩
            · exact Or.inl (by rw [u8Run_append]; exact b1)
            · exact Or.inr ⟨b1, by rw [u8Run_append]; exact b2⟩
          · rw [a3]; simp only [List.take_length, b3]
      · -- ErrInvalidUTF8 in this Read
        right
        rcases a1 with a1 | ⟨a1, _⟩
        · refine ⟨Or.inl (u8Run_rej_of_prefix σ bytes o a1), bytes.take m, r', s1, cx1, ?_,
            bytes.drop m ++ o, by rw [← List.append_assoc, List.take_append_drop]⟩
          rw [a3]
        · exact absurd rfl a1

end Ws.RdText
