/-
  The checking reader on a message that is NOT text (binary, with CheckUTF8 on — the configuration of
  wsutil.ReadMessage): step for step the non-checking reader. `strip` (Proofs/ReaderText) clears the
  three UTF-8 fields; for a reader whose frame stack does not contain the validator (`utf8on = false`)
  and whose validator is in its initial state, every layer commutes with `strip`, also with the
  collecting OnIntermediate handler installed.
-/
import WsVerif.Proofs.ReaderText
import WsVerif.Proofs.ReaderCb
namespace Ws.RdBin
open Ws Ws.Spec Ws.RdProof Ws.RdText Ws.RdCb

/-- frame-level read without the validator in the stack -/
theorem frameRead_strip_off (r : Rd) (s : Src) (k : Nat) (hoff : r.utf8on = false) :
    (strip r).frameRead s k = match r.frameRead s k with
      | none => none
      | some (p, n, e, q, s1) => some (p, n, e, strip q, s1) := by
  rw [frameRead_eq r s k]
  rcases hfr : (strip r).frameRead s k with _ | ⟨plain, n0, e0, q2, s2⟩
  · rfl
  · obtain ⟨hq2, hn0, _, _, _⟩ := frameRead_strip_fix r s k plain n0 e0 q2 s2 hfr
    simp only [hoff, Bool.false_eq_true, if_false]
    have : strip (restore r q2) = q2 := by rw [← hq2]; cases q2; cases r; rfl
    rw [this, hn0]

/-- the frame reader handed to a callback (Rd.pull false): same chunks, same end -/
theorem pullFrame_strip (k fuel : Nat) : ∀ (r : Rd) (s : Src) (cx : Ctx) (acc : List Bytes), r.utf8on = false →
    Rd.pull false k none fuel (strip r) s cx acc =
      ((Rd.pull false k none fuel r s cx acc).1, (Rd.pull false k none fuel r s cx acc).2.1,
       strip (Rd.pull false k none fuel r s cx acc).2.2.1, (Rd.pull false k none fuel r s cx acc).2.2.2.1,
       (Rd.pull false k none fuel r s cx acc).2.2.2.2) := by
  induction fuel with
  | zero => intro r s cx acc _; rfl
  | succ n ih =>
    intro r s cx acc hoff
    rw [Rd.pull, Rd.pull]
    simp only [Bool.false_eq_true, if_false]
    rw [frameRead_strip_off r s k hoff]
    rcases hfr : r.frameRead s k with _ | ⟨p, m, e, q, s1⟩
    · rfl
    · simp only
      cases e with
      | some e => rfl
      | none =>
        have hq : q.utf8on = false := by
          have := frameRead_eq r s k
          rw [hfr] at this
          rcases hs : (strip r).frameRead s k with _ | ⟨pl, n0, e0, q2, s2⟩
          · rw [hs] at this; cases this
          · rw [hs] at this
            simp only [hoff, Bool.false_eq_true, if_false, Option.some.injEq, Prod.mk.injEq] at this
            obtain ⟨_, _, _, rfl, _⟩ := this
            simp [restore, hoff]
        exact ih q s1 cx _ hq

/-- the collecting handler does not look at the UTF-8 fields -/
theorem collect_strip (h : Header) (r : Rd) (s : Src) (cx : Ctx) (hoff : r.utf8on = false) :
    collect h (strip r) s cx =
      ⟨(collect h r s cx).err, strip (collect h r s cx).rd, (collect h r s cx).src, (collect h r s cx).ctx⟩ := by
  unfold collect
  rw [pullFrame_strip 512 (pullFuel s) r s cx [] hoff]
  rcases Rd.pull false 512 none (pullFuel s) r s cx [] with ⟨chunks, e, r', s', cx'⟩
  simp only
  split <;> rfl

/-- NextFrame with the collecting handler commutes with `strip`. -/
theorem nextFrame_strip_collect (r : Rd) (s : Src) (cx : Ctx) :
    (strip r).nextFrame s cx (some collect) =
      ((r.nextFrame s cx (some collect)).1, (r.nextFrame s cx (some collect)).2.1, strip (r.nextFrame s cx (some collect)).2.2.1,
       (r.nextFrame s cx (some collect)).2.2.2.1, (r.nextFrame s cx (some collect)).2.2.2.2) := by
  obtain ⟨st, sk, ck, ex, co, mf, oc, hf, rn, mk, msk, cp, uon, u8⟩ := r
  unfold Rd.nextFrame
  simp only [strip]
  rcases readHeaderUtil s with ⟨res, s1⟩
  cases res with
  | error e =>
    cases e with
    | io f => cases f <;> rfl
    | _ => rfl
  | ok hdr =>
    have key : ∀ (ck0 : Option ProtoErr) (x : Header × Option ProtoErr × Bool),
        (match ck0 with
          | some pe => ((some hdr, some (RErr.proto pe), (⟨st, sk, false, ex, co, mf, oc, hf, rn, mk, msk, cp, false, {}⟩ : Rd), s1, cx) : Option Header × Option RErr × Rd × Src × Ctx)
          | none =>
            if mf > 0 ∧ hdr.len > mf then (some hdr, some .tooLarge, ⟨st, sk, false, ex, co, mf, oc, hf, rn, mk, msk, cp, false, {}⟩, s1, cx)
            else
              let r1 : Rd := ⟨st, sk, false, ex, co, mf, oc, hf, hdr.len, hdr.masked, hdr.mask, 0, false, {}⟩
              let r2 := { r1 with compressed := x.2.2 }
              match x.2.1 with
              | some pe => (some x.1, some (.proto pe), (⟨st, sk, false, ex, x.2.2, mf, oc, hf, hdr.len, mk, (if hdr.masked then hdr.mask else msk), (if hdr.masked then 0 else cp), false, {}⟩ : Rd), s1, cx)
              | none =>
                if r2.fragmented && opIsControl x.1.op then
                  let res := collect x.1 r2 s1 cx
                  match res.err with
                  | some e => (some x.1, some e, res.rd, res.src, res.ctx)
                  | none =>
                    let (e, r3, s3) := res.rd.drainRaw res.src res.src.fuel
                    (some x.1, e, r3, s3, res.ctx)
                else
                  let r3 := if r2.fragmented then r2 else { r2 with opCode := x.1.op }
                  let useUtf8 := r3.checkUTF8 && (x.1.op == opText || (r3.fragmented && r3.opCode == opText))
                  let r4 := { r3 with utf8on := useUtf8, hasFrame := true }
                  let r5 := { r4 with state := if x.1.fin then stClear r4.state stFragmented else stSet r4.state stFragmented }
                  (some x.1, none, r5, s1, cx))
        = (let q : Option Header × Option RErr × Rd × Src × Ctx :=
            (match ck0 with
            | some pe => (some hdr, some (RErr.proto pe), (⟨st, sk, ck, ex, co, mf, oc, hf, rn, mk, msk, cp, uon, u8⟩ : Rd), s1, cx)
            | none =>
              if mf > 0 ∧ hdr.len > mf then (some hdr, some .tooLarge, ⟨st, sk, ck, ex, co, mf, oc, hf, rn, mk, msk, cp, uon, u8⟩, s1, cx)
              else
                let r1 : Rd := ⟨st, sk, ck, ex, co, mf, oc, hf, hdr.len, hdr.masked, hdr.mask, 0, false, u8⟩
                let r2 := { r1 with compressed := x.2.2 }
                match x.2.1 with
                | some pe => (some x.1, some (.proto pe), (⟨st, sk, ck, ex, x.2.2, mf, oc, hf, hdr.len, mk, (if hdr.masked then hdr.mask else msk), (if hdr.masked then 0 else cp), uon, u8⟩ : Rd), s1, cx)
                | none =>
                  if r2.fragmented && opIsControl x.1.op then
                    let res := collect x.1 r2 s1 cx
                    match res.err with
                    | some e => (some x.1, some e, res.rd, res.src, res.ctx)
                    | none =>
                      let (e, r3, s3) := res.rd.drainRaw res.src res.src.fuel
                      (some x.1, e, r3, s3, res.ctx)
                  else
                    let r3 := if r2.fragmented then r2 else { r2 with opCode := x.1.op }
                    let useUtf8 := r3.checkUTF8 && (x.1.op == opText || (r3.fragmented && r3.opCode == opText))
                    let r4 := { r3 with utf8on := useUtf8, hasFrame := true }
                    let r5 := { r4 with state := if x.1.fin then stClear r4.state stFragmented else stSet r4.state stFragmented }
                    (some x.1, none, r5, s1, cx))
           (q.1, q.2.1, strip q.2.2.1, q.2.2.2.1, q.2.2.2.2)) := by
      intro ck0 x
      obtain ⟨h2, xe, comp⟩ := x
      cases ck0 with
      | some pe => rfl
      | none =>
        simp only
        by_cases hmf : mf > 0 ∧ hdr.len > mf
        · simp only [hmf, and_self, if_true]; rfl
        · simp only [hmf, if_false]
          cases xe with
          | some pe => rfl
          | none =>
            simp only [Rd.fragmented]
            by_cases hb : (stIs st stFragmented && opIsControl h2.op) = true
            · simp only [hb, if_true]
              have hc := collect_strip h2 ⟨st, sk, ck, ex, comp, mf, oc, hf, hdr.len, hdr.masked, hdr.mask, 0, false, u8⟩ s1 cx rfl
              simp only [strip] at hc
              rw [hc]
              rcases collect h2 ⟨st, sk, ck, ex, comp, mf, oc, hf, hdr.len, hdr.masked, hdr.mask, 0, false, u8⟩ s1 cx with ⟨ce, crd, csrc, cctx⟩
              simp only
              cases ce with
              | some e => rfl
              | none =>
                simp only
                have hd := drainRaw_strip crd csrc csrc.fuel
                simp only [strip] at hd ⊢
                rw [hd]
            · simp only [hb, if_false]
              by_cases hfr : stIs st stFragmented = true <;> simp [hfr, strip]
    exact key _ _


/-! ### which fields the frame-level layers touch -/

/-- `q` is `r` up to the position inside the current frame -/
def Keeps (r q : Rd) : Prop := q = { r with rawN := q.rawN, cpos := q.cpos }

theorem Keeps.refl (r : Rd) : Keeps r r := by cases r; rfl

theorem Keeps.trans {a b c : Rd} (h1 : Keeps a b) (h2 : Keeps b c) : Keeps a c := by
  unfold Keeps at *; rw [h2, h1]

theorem frameRead_keeps (r : Rd) (s : Src) (k : Nat) (hoff : r.utf8on = false)
    (p : Bytes) (n : Nat) (e : Option RErr) (q : Rd) (s1 : Src) (h : r.frameRead s k = some (p, n, e, q, s1)) :
    Keeps r q := by
  unfold Rd.frameRead at h
  have h0 := rawRead_only_rawN r s k
  rcases hr : r.rawRead s k with ⟨got, e0, r1, s2⟩
  rw [hr] at h h0
  simp only at h h0
  obtain ⟨st, sk, ck, ex, co, mf, oc, hf, rn, mk, msk, cp, uon, u8⟩ := r
  simp only at hoff
  subst hoff
  rw [h0] at h
  cases mk
  · simp only [Bool.false_eq_true, if_false, Option.some.injEq, Prod.mk.injEq] at h
    obtain ⟨_, _, _, rfl, _⟩ := h
    rfl
  · simp only [if_true] at h
    cases hc : cipher got msk cp with
    | none => simp [hc] at h
    | some pl =>
      simp only [hc, Bool.false_eq_true, if_false, Option.some.injEq, Prod.mk.injEq] at h
      obtain ⟨_, _, _, rfl, _⟩ := h
      rfl

theorem pullFrame_keeps (k fuel : Nat) : ∀ (r : Rd) (s : Src) (cx : Ctx) (acc : List Bytes), r.utf8on = false →
    Keeps r (Rd.pull false k none fuel r s cx acc).2.2.1 ∧ (Rd.pull false k none fuel r s cx acc).2.2.2.2 = cx := by
  induction fuel with
  | zero => intro r s cx acc _; exact ⟨Keeps.refl r, rfl⟩
  | succ n ih =>
    intro r s cx acc hoff
    rw [Rd.pull]
    simp only [Bool.false_eq_true, if_false]
    rcases hfr : r.frameRead s k with _ | ⟨p, m, e, q, s1⟩
    · exact ⟨Keeps.refl r, rfl⟩
    · have hk := frameRead_keeps r s k hoff p m e q s1 hfr
      simp only
      cases e with
      | some e => exact ⟨hk, rfl⟩
      | none =>
        have hq : q.utf8on = false := by rw [hk]; exact hoff
        obtain ⟨h1, h2⟩ := ih q s1 cx (if m = 0 then acc else List.take m p :: acc) hq
        exact ⟨hk.trans h1, h2⟩

theorem collect_keeps (h : Header) (r : Rd) (s : Src) (cx : Ctx) (hoff : r.utf8on = false) :
    Keeps r (collect h r s cx).rd := by
  unfold collect
  have hk := (pullFrame_keeps 512 (pullFuel s) r s cx [] hoff).1
  rcases hp : Rd.pull false 512 none (pullFuel s) r s cx [] with ⟨chunks, e, r', s', cx'⟩
  rw [hp] at hk
  simp only at hk ⊢
  split <;> exact hk

theorem nextFrame_fields_collect (r : Rd) (s : Src) (cx : Ctx) :
    (r.nextFrame s cx (some collect)).2.2.1.checkUTF8 = r.checkUTF8 ∧ (r.nextFrame s cx (some collect)).2.2.1.utf8 = r.utf8
    ∧ (((r.nextFrame s cx (some collect)).2.2.1.hasFrame = r.hasFrame ∧ (r.nextFrame s cx (some collect)).2.2.1.opCode = r.opCode
          ∧ (r.nextFrame s cx (some collect)).2.2.1.state = r.state)
       ∨ ((r.nextFrame s cx (some collect)).2.1 = none ∧ (r.nextFrame s cx (some collect)).2.2.1.hasFrame = true
          ∧ ∃ h : Header, (r.nextFrame s cx (some collect)).2.2.1.utf8on = (r.checkUTF8 && (h.op == opText || (r.fragmented && r.opCode == opText)))
              ∧ (r.nextFrame s cx (some collect)).2.2.1.opCode = (if r.fragmented then r.opCode else h.op)
              ∧ (r.nextFrame s cx (some collect)).1 = some h)) := by
  obtain ⟨st, sk, ck, ex, co, mf, oc, hf, rn, mk, msk, cp, uon, u8⟩ := r
  unfold Rd.nextFrame
  rcases readHeaderUtil s with ⟨res, s1⟩
  cases res with
  | error e =>
    cases e with
    | io f => cases f <;> exact ⟨rfl, rfl, Or.inl ⟨rfl, rfl, rfl⟩⟩
    | _ => exact ⟨rfl, rfl, Or.inl ⟨rfl, rfl, rfl⟩⟩
  | ok hdr =>
    simp only
    generalize (if sk = true then none else checkHeader hdr st) = ck0
    cases ck0 with
    | some pe => exact ⟨rfl, rfl, Or.inl ⟨rfl, rfl, rfl⟩⟩
    | none =>
      simp only
      by_cases hmf : mf > 0 ∧ hdr.len > mf
      · rw [if_pos hmf]; exact ⟨rfl, rfl, Or.inl ⟨rfl, rfl, rfl⟩⟩
      · rw [if_neg hmf]
        generalize (if ex = true then unsetBits co hdr else (hdr, none, co)) = x
        obtain ⟨h2, xe, comp⟩ := x
        cases xe with
        | some pe => exact ⟨rfl, rfl, Or.inl ⟨rfl, rfl, rfl⟩⟩
        | none =>
          simp only [Rd.fragmented]
          by_cases hb : (stIs st stFragmented && opIsControl h2.op) = true
          · simp only [hb, if_true]
            have hk := collect_keeps h2 ⟨st, sk, ck, ex, comp, mf, oc, hf, hdr.len, hdr.masked, hdr.mask, 0, false, u8⟩ s1 cx rfl
            rcases hcol : collect h2 ⟨st, sk, ck, ex, comp, mf, oc, hf, hdr.len, hdr.masked, hdr.mask, 0, false, u8⟩ s1 cx with ⟨ce, crd, csrc, cctx⟩
            rw [hcol] at hk
            simp only at hk ⊢
            cases ce with
            | some e =>
              simp only
              rw [hk]
              exact ⟨rfl, rfl, Or.inl ⟨rfl, rfl, rfl⟩⟩
            | none =>
              simp only
              have h := drainRaw_only_rawN crd csrc csrc.fuel
              rw [h, hk]
              exact ⟨rfl, rfl, Or.inl ⟨rfl, rfl, rfl⟩⟩
          · simp only [hb, if_false]
            refine ⟨?_, ?_, Or.inr ⟨rfl, rfl, h2, ?_, ?_, rfl⟩⟩ <;>
              (by_cases hfr : stIs st stFragmented = true <;> simp [hfr])


theorem nextFrame_fields_collect2 (r : Rd) (s : Src) (cx : Ctx) :
    (r.nextFrame s cx (some collect)).2.2.1.skipCheck = r.skipCheck ∧ (r.nextFrame s cx (some collect)).2.2.1.ext = r.ext
    ∧ (r.nextFrame s cx (some collect)).2.2.1.checkUTF8 = r.checkUTF8 ∧ (r.nextFrame s cx (some collect)).2.2.1.utf8 = r.utf8
    ∧ (((r.nextFrame s cx (some collect)).2.2.1.hasFrame = r.hasFrame ∧ (r.nextFrame s cx (some collect)).2.2.1.opCode = r.opCode
          ∧ (r.nextFrame s cx (some collect)).2.2.1.state = r.state)
       ∨ ((r.nextFrame s cx (some collect)).2.1 = none ∧ (r.nextFrame s cx (some collect)).2.2.1.hasFrame = true
          ∧ ∃ h : Header, (r.nextFrame s cx (some collect)).2.2.1.utf8on = (r.checkUTF8 && (h.op == opText || (r.fragmented && r.opCode == opText)))
              ∧ (r.nextFrame s cx (some collect)).2.2.1.opCode = (if r.fragmented then r.opCode else h.op)
              ∧ (r.nextFrame s cx (some collect)).1 = some h
              ∧ (r.ext = false → (if r.skipCheck then none else checkHeader h r.state) = none)
              ∧ (r.nextFrame s cx (some collect)).2.2.1.state = (if h.fin then stClear r.state stFragmented else stSet r.state stFragmented))) := by
  obtain ⟨st, sk, ck, ex, co, mf, oc, hf, rn, mk, msk, cp, uon, u8⟩ := r
  unfold Rd.nextFrame
  rcases readHeaderUtil s with ⟨res, s1⟩
  cases res with
  | error e =>
    cases e with
    | io f => cases f <;> exact ⟨rfl, rfl, rfl, rfl, Or.inl ⟨rfl, rfl, rfl⟩⟩
    | _ => exact ⟨rfl, rfl, rfl, rfl, Or.inl ⟨rfl, rfl, rfl⟩⟩
  | ok hdr =>
    simp only
    generalize hck : (if sk = true then none else checkHeader hdr st) = ck0
    cases ck0 with
    | some pe => exact ⟨rfl, rfl, rfl, rfl, Or.inl ⟨rfl, rfl, rfl⟩⟩
    | none =>
      simp only
      by_cases hmf : mf > 0 ∧ hdr.len > mf
      · rw [if_pos hmf]; exact ⟨rfl, rfl, rfl, rfl, Or.inl ⟨rfl, rfl, rfl⟩⟩
      · rw [if_neg hmf]
        generalize hx : (if ex = true then unsetBits co hdr else (hdr, none, co)) = x
        obtain ⟨h2, xe, comp⟩ := x
        cases xe with
        | some pe => exact ⟨rfl, rfl, rfl, rfl, Or.inl ⟨rfl, rfl, rfl⟩⟩
        | none =>
          simp only [Rd.fragmented]
          by_cases hb : (stIs st stFragmented && opIsControl h2.op) = true
          · simp only [hb, if_true]
            have hk := collect_keeps h2 ⟨st, sk, ck, ex, comp, mf, oc, hf, hdr.len, hdr.masked, hdr.mask, 0, false, u8⟩ s1 cx rfl
            rcases hcol : collect h2 ⟨st, sk, ck, ex, comp, mf, oc, hf, hdr.len, hdr.masked, hdr.mask, 0, false, u8⟩ s1 cx with ⟨ce, crd, csrc, cctx⟩
            rw [hcol] at hk
            simp only at hk ⊢
            cases ce with
            | some e =>
              simp only
              rw [hk]
              exact ⟨rfl, rfl, rfl, rfl, Or.inl ⟨rfl, rfl, rfl⟩⟩
            | none =>
              simp only
              have h := drainRaw_only_rawN crd csrc csrc.fuel
              rw [h, hk]
              exact ⟨rfl, rfl, rfl, rfl, Or.inl ⟨rfl, rfl, rfl⟩⟩
          · simp only [hb, if_false]
            have hh2 : ex = false → h2 = hdr := by
              intro hex; rw [hex] at hx; simp only [Bool.false_eq_true, if_false, Prod.mk.injEq] at hx; exact hx.1.symm
            refine ⟨?_, ?_, ?_, ?_, Or.inr ⟨rfl, rfl, h2, ?_, ?_, rfl, ?_, ?_⟩⟩
            · by_cases hfr : stIs st stFragmented = true <;> simp [hfr]
            · by_cases hfr : stIs st stFragmented = true <;> simp [hfr]
            · by_cases hfr : stIs st stFragmented = true <;> simp [hfr]
            · by_cases hfr : stIs st stFragmented = true <;> simp [hfr]
            · by_cases hfr : stIs st stFragmented = true <;> simp [hfr]
            · by_cases hfr : stIs st stFragmented = true <;> simp [hfr]
            · intro hex; rw [hh2 hex]; exact hck
            · by_cases hfr : stIs st stFragmented = true <;> simp [hfr]



/-! ### Reader.Read on a message that is not text, checking on -/

/-- map the reader component of a Read result -/
def mapRd (f : Rd → Rd) : Option (Bytes × Nat × Option RErr × Rd × Src × Ctx) → Option (Bytes × Nat × Option RErr × Rd × Src × Ctx)
  | none => none
  | some (b, n, e, r, s, cx) => some (b, n, e, f r, s, cx)

theorem reset_strip' (r : Rd) : strip r.reset = (strip r).reset := by cases r; rfl
theorem resetFragment_strip' (r : Rd) : strip r.resetFragment = (strip r).resetFragment := by cases r; rfl

/-- the second half of Read: with the validator out of the frame stack and in its initial state the checking
    reader decides exactly like the non-checking one -/
theorem tail_bin (r : Rd) (s : Src) (cx : Ctx) (k : Nat) (hoff : r.utf8on = false) (hfresh : r.utf8 = {}) :
    tail (strip r) s cx k = mapRd strip (tail r s cx k) := by
  unfold tail
  rw [frameRead_strip_off r s k hoff]
  rcases hfr : r.frameRead s k with _ | ⟨p, m, e0, q, s1⟩
  · rfl
  · have hk := frameRead_keeps r s k hoff p m e0 q s1 hfr
    have hq8 : q.utf8 = {} := by rw [hk]; exact hfresh
    have hval : q.utf8.valid = true := by rw [hq8]; rfl
    have hsc : (strip q).checkUTF8 = false := rfl
    have hsr : (strip q).rawN = q.rawN := rfl
    have hsf : (strip q).fragmented = q.fragmented := rfl
    have hqc : q.checkUTF8 = r.checkUTF8 := by rw [hk]
    simp only
    cases e0 with
    | none =>
      by_cases hz : q.rawN = 0 <;> cases hqf : q.fragmented <;>
        simp [hz, hqf, hsc, hsr, hsf, hval, mapRd, resetFragment_strip', reset_strip']
    | some e1 =>
      cases e1 with
      | eof =>
        by_cases hz : q.rawN = 0 <;> cases hqf : q.fragmented <;>
          simp [hz, hqf, hsc, hsr, hsf, hval, mapRd, resetFragment_strip', reset_strip']
      | _ => simp [hsc, hval, mapRd]

/-- an open fragmented message refuses a text frame: the header check lets through only continuations and
    control frames -/
theorem frag_refuses_text (h : Header) (st : Nat) (hf : stIs st stFragmented = true) (hc : checkHeader h st = none) :
    h.op ≠ opText := by
  intro hop
  have c7 : (stIs st stFragmented && !opIsControl opText && opText != opContinuation) = true := by rw [hf]; decide
  unfold checkHeader at hc
  rw [hop] at hc
  by_cases c1 : opIsReserved opText = true
  · rw [if_pos c1] at hc; cases hc
  rw [if_neg c1] at hc
  by_cases c2 : (opIsControl opText && decide (h.len > 125)) = true
  · rw [if_pos c2] at hc; cases hc
  rw [if_neg c2] at hc
  by_cases c3 : (opIsControl opText && !h.fin) = true
  · rw [if_pos c3] at hc; cases hc
  rw [if_neg c3] at hc
  by_cases c4 : (h.rsv != 0 && !stIs st stExtended) = true
  · rw [if_pos c4] at hc; cases hc
  rw [if_neg c4] at hc
  by_cases c5 : (stIs st stServer && !h.masked) = true
  · rw [if_pos c5] at hc; cases hc
  rw [if_neg c5] at hc
  by_cases c6 : (stIs st stClient && h.masked) = true
  · rw [if_pos c6] at hc; cases hc
  rw [if_neg c6, if_pos c7] at hc
  cases hc

/-- the checking reader inside a message that is not text -/
structure Bin (r : Rd) : Prop where
  off : r.hasFrame = true → r.utf8on = false
  fresh : r.utf8 = {}
  op : r.opCode ≠ opText
  skip : r.skipCheck = false
  ext : r.ext = false
  frag : r.hasFrame = false → r.fragmented = true

theorem read_next_cb (r : Rd) (s : Src) (cx : Ctx) (k : Nat) (cb : Option Callback) (h : r.hasFrame = false) (hf : r.fragmented = true) :
    r.read s cx k cb =
      match (r.nextFrame s cx cb).2.1 with
      | some e => some ([], 0, some e, (r.nextFrame s cx cb).2.2.1, (r.nextFrame s cx cb).2.2.2.1, (r.nextFrame s cx cb).2.2.2.2)
      | none =>
        if (r.nextFrame s cx cb).2.2.1.hasFrame = false then
          some ([], 0, none, (r.nextFrame s cx cb).2.2.1, (r.nextFrame s cx cb).2.2.2.1, (r.nextFrame s cx cb).2.2.2.2)
        else tail (r.nextFrame s cx cb).2.2.1 (r.nextFrame s cx cb).2.2.2.1 (r.nextFrame s cx cb).2.2.2.2 k := by
  unfold Rd.read tail
  simp only [h, hf, Bool.not_false, Bool.not_true, if_true, Bool.false_eq_true, if_false]
  rcases r.nextFrame s cx cb with ⟨hd, e, r1, s1, cx1⟩
  cases e with
  | some e => rfl
  | none =>
    simp only
    cases hh : r1.hasFrame
    · simp only [Bool.not_false, if_true]
    · simp only [Bool.not_true, Bool.false_eq_true, if_false]
      rfl

theorem read_has_cb (r : Rd) (s : Src) (cx : Ctx) (k : Nat) (cb : Option Callback) (h : r.hasFrame = true) :
    r.read s cx k cb = tail r s cx k := by
  unfold Rd.read tail
  simp only [h, Bool.not_true, Bool.false_eq_true, if_false]
  rfl

/-- what a successful second half of Read leaves behind -/
theorem tail_none (r : Rd) (s : Src) (cx : Ctx) (k : Nat) (hoff : r.utf8on = false)
    (b : Bytes) (n : Nat) (r' : Rd) (s' : Src) (cx' : Ctx) (h : tail r s cx k = some (b, n, none, r', s', cx')) :
    ∃ q, Keeps r q ∧ (r' = q ∨ (q.fragmented = true ∧ r' = q.resetFragment)) := by
  unfold tail at h
  rcases hfr : r.frameRead s k with _ | ⟨p, m, e0, q, s1⟩
  · rw [hfr] at h; simp at h
  · have hk := frameRead_keeps r s k hoff p m e0 q s1 hfr
    rw [hfr] at h
    refine ⟨q, hk, ?_⟩
    cases e0 with
    | none =>
      simp only at h
      by_cases hz : q.rawN = 0 <;> cases hqf : q.fragmented <;> simp [hz, hqf] at h
      · split at h <;> simp at h
      · exact Or.inr ⟨rfl, h.2.2.1.symm⟩
      · exact Or.inl h.2.2.1.symm
      · exact Or.inl h.2.2.1.symm
    | some e1 =>
      cases e1 with
      | eof =>
        simp only at h
        by_cases hz : q.rawN = 0 <;> cases hqf : q.fragmented <;> simp [hz, hqf] at h
        · split at h <;> simp at h
        · exact Or.inr ⟨rfl, h.2.2.1.symm⟩
      | _ =>
        simp only at h
        split at h <;> simp at h

theorem keeps_bin {r q : Rd} (hk : Keeps r q) (hb : Bin r) (hh : r.hasFrame = true) : Bin q ∧ q.hasFrame = true := by
  have e1 : q.utf8on = r.utf8on := by rw [hk]
  have e2 : q.utf8 = r.utf8 := by rw [hk]
  have e3 : q.opCode = r.opCode := by rw [hk]
  have e4 : q.skipCheck = r.skipCheck := by rw [hk]
  have e5 : q.ext = r.ext := by rw [hk]
  have e6 : q.hasFrame = r.hasFrame := by rw [hk]
  exact ⟨⟨(fun _ => by rw [e1]; exact hb.off hh), (by rw [e2]; exact hb.fresh), (by rw [e3]; exact hb.op), (by rw [e4]; exact hb.skip),
    (by rw [e5]; exact hb.ext), (fun h => by rw [e6, hh] at h; cases h)⟩, (by rw [e6]; exact hh)⟩

/-- **One Read of the checking reader inside a message that is not text** (collecting handler installed): the
    same transport reads, bytes, count and error as the non-checking reader, and the invariant is kept. -/
theorem read_bin (r : Rd) (s : Src) (cx : Ctx) (k : Nat) (hb : Bin r) :
    (strip r).read s cx k (some collect) = mapRd strip (r.read s cx k (some collect))
    ∧ (∀ b n r' s' cx', r.read s cx k (some collect) = some (b, n, none, r', s', cx') → Bin r') := by
  by_cases hh : r.hasFrame = true
  · rw [read_has_cb r s cx k _ hh, read_has_cb (strip r) s cx k _ hh]
    refine ⟨tail_bin r s cx k (hb.off hh) hb.fresh, ?_⟩
    intro b n r' s' cx' h
    obtain ⟨q, hk, hq⟩ := tail_none r s cx k (hb.off hh) b n r' s' cx' h
    obtain ⟨hbq, hqh⟩ := keeps_bin hk hb hh
    rcases hq with rfl | ⟨hqf, rfl⟩
    · exact hbq
    · exact ⟨(fun h => by simp [Rd.resetFragment] at h), hbq.fresh, hbq.op, hbq.skip, hbq.ext, fun _ => hqf⟩
  · have hh' : r.hasFrame = false := by simpa using hh
    have hf := hb.frag hh'
    rw [read_next_cb r s cx k _ hh' hf, read_next_cb (strip r) s cx k _ hh' hf, nextFrame_strip_collect]
    obtain ⟨f1, f2, f3, f4, f5⟩ := nextFrame_fields_collect2 r s cx
    rcases hN : r.nextFrame s cx (some collect) with ⟨hd, e1, r1, s1, cx1⟩
    rw [hN] at f1 f2 f3 f4 f5
    simp only at f1 f2 f3 f4 f5 ⊢
    cases e1 with
    | some x => exact ⟨rfl, fun b n r' s' cx' h => by simp at h⟩
    | none =>
      simp only
      have hsh : (strip r1).hasFrame = r1.hasFrame := rfl
      rw [hsh]
      by_cases h1 : r1.hasFrame = false
      · simp only [h1, if_true]
        refine ⟨rfl, ?_⟩
        intro b n r' s' cx' h
        simp only [Option.some.injEq, Prod.mk.injEq] at h
        obtain ⟨_, _, _, rfl, _⟩ := h
        rcases f5 with ⟨g1, g2, g3⟩ | ⟨_, g2, _⟩
        · refine ⟨(fun h => by rw [h1] at h; cases h), (by rw [f4]; exact hb.fresh), (by rw [g2]; exact hb.op), (by rw [f1]; exact hb.skip),
            (by rw [f2]; exact hb.ext), fun _ => ?_⟩
          simpa [Rd.fragmented, g3] using hf
        · rw [h1] at g2; cases g2
      · have h1' : r1.hasFrame = true := by simpa using h1
        simp only [h1, if_false]
        -- a data frame was entered: a continuation (the header check refuses a text frame here), so no validator
        have hb1 : Bin r1 := by
          rcases f5 with ⟨g1, _, _⟩ | ⟨_, _, h, g4, g5, _, g7, _⟩
          · rw [g1, hh'] at h1'; cases h1'
          · have hck : checkHeader h r.state = none := by simpa [hb.skip] using g7 hb.ext
            have hnt : h.op ≠ opText := frag_refuses_text h r.state (by simpa [Rd.fragmented] using hf) hck
            refine ⟨fun _ => ?_, (by rw [f4]; exact hb.fresh), ?_, (by rw [f1]; exact hb.skip), (by rw [f2]; exact hb.ext),
              (fun h => by rw [h1'] at h; cases h)⟩
            · rw [g4]
              have : (h.op == opText) = false := by simpa using hnt
              have h2 : (r.opCode == opText) = false := by simpa using hb.op
              simp [this, h2]
            · rw [g5, hf]; simpa using hb.op
        refine ⟨tail_bin r1 s1 cx1 k (hb1.off h1') hb1.fresh, ?_⟩
        intro b n r' s' cx' h
        obtain ⟨q, hk, hq⟩ := tail_none r1 s1 cx1 k (hb1.off h1') b n r' s' cx' h
        obtain ⟨hbq, hqh⟩ := keeps_bin hk hb1 h1'
        rcases hq with rfl | ⟨hqf, rfl⟩
        · exact hbq
        · exact ⟨(fun h => by simp [Rd.resetFragment] at h), hbq.fresh, hbq.op, hbq.skip, hbq.ext, fun _ => hqf⟩

/-- **ReadAll over the checking reader inside a message that is not text**: the loop of the non-checking one. -/
theorem pull_bin (fuel : Nat) : ∀ (r : Rd) (s : Src) (cx : Ctx) (acc : List Bytes), Bin r →
    Rd.pull true 512 (some collect) fuel (strip r) s cx acc =
      ((Rd.pull true 512 (some collect) fuel r s cx acc).1, (Rd.pull true 512 (some collect) fuel r s cx acc).2.1,
       strip (Rd.pull true 512 (some collect) fuel r s cx acc).2.2.1, (Rd.pull true 512 (some collect) fuel r s cx acc).2.2.2.1,
       (Rd.pull true 512 (some collect) fuel r s cx acc).2.2.2.2) := by
  induction fuel with
  | zero => intro r s cx acc _; rfl
  | succ n ih =>
    intro r s cx acc hb
    obtain ⟨h1, h2⟩ := read_bin r s cx 512 hb
    rw [Rd.pull, Rd.pull]
    simp only [if_true]
    rw [h1]
    rcases hr : r.read s cx 512 (some collect) with _ | ⟨b, m, e, r', s', cx'⟩
    · rfl
    · simp only [mapRd]
      cases e with
      | some e => rfl
      | none => exact ih r' s' cx' _ (h2 b m r' s' cx' hr)

/-! ### the text simulation of Proofs/ReaderText with the collecting handler installed -/

theorem collect_err_ne_eof (h : Header) (r : Rd) (s : Src) (cx : Ctx) : (collect h r s cx).err ≠ some .eof := by
  unfold collect
  rcases Rd.pull false 512 none (pullFuel s) r s cx [] with ⟨chunks, e, r', s', cx'⟩
  simp only
  by_cases he : e = .eof
  · simp [he]
  · simp [he]

theorem nextFrame_ne_eof_collect (r : Rd) (s : Src) (cx : Ctx) (hf : r.fragmented = true) :
    (r.nextFrame s cx (some collect)).2.1 ≠ some .eof := by
  obtain ⟨st, sk, ck, ex, co, mf, oc, hf0, rn, mk, msk, cp, uon, u8⟩ := r
  simp only [Rd.fragmented] at hf
  unfold Rd.nextFrame
  rcases readHeaderUtil s with ⟨res, s1⟩
  cases res with
  | error e =>
    cases e with
    | io f => cases f <;> simp [Rd.fragmented, hf]
    | _ => simp
  | ok hdr =>
    simp only
    generalize (if sk = true then none else checkHeader hdr st) = ck0
    cases ck0 with
    | some pe => simp
    | none =>
      simp only
      by_cases hmf : mf > 0 ∧ hdr.len > mf
      · rw [if_pos hmf]; simp
      · rw [if_neg hmf]
        generalize (if ex = true then unsetBits co hdr else (hdr, none, co)) = x
        obtain ⟨h2, xe, comp⟩ := x
        cases xe with
        | some pe => simp
        | none =>
          simp only [Rd.fragmented]
          by_cases hb : (stIs st stFragmented && opIsControl h2.op) = true
          · simp only [hb, if_true]
            have hce := collect_err_ne_eof h2 ⟨st, sk, ck, ex, comp, mf, oc, hf0, hdr.len, hdr.masked, hdr.mask, 0, false, u8⟩ s1 cx
            rcases hcol : collect h2 ⟨st, sk, ck, ex, comp, mf, oc, hf0, hdr.len, hdr.masked, hdr.mask, 0, false, u8⟩ s1 cx with ⟨ce, crd, csrc, cctx⟩
            rw [hcol] at hce
            simp only at hce ⊢
            cases ce with
            | some e => simpa using hce
            | none => exact drainRaw_ne_eof _ _ _
          · simp only [hb]
            simp


/-- **One Read, anywhere inside a text message.** -/
theorem read_sim_collect (σ : U8) (r : Rd) (s : Src) (cx : Ctx) (k : Nat) (htm : TM σ r)
    (bytes : Bytes) (n : Nat) (e : Option RErr) (q : Rd) (s' : Src) (cx' : Ctx)
    (h : (strip r).read s cx k (some collect) = some (bytes, n, e, q, s', cx')) (hwf : Bytes.WF bytes) :
    SimOut σ (r.read s cx k (some collect)) bytes n e q s' cx' := by
  by_cases hhas : r.hasFrame = true
  · rw [read_has_cb _ _ _ _ _ (by exact hhas)] at h
    rw [read_has_cb _ _ _ _ _ hhas]
    exact tail_sim σ r s cx k htm hhas bytes n e q s' cx' h hwf
  · have hhas' : r.hasFrame = false := by simpa using hhas
    have hfr : r.fragmented = true := by
      rcases htm.mid with h1 | h1
      · exact absurd h1 hhas
      · exact h1
    rw [read_next_cb (strip r) s cx k _ hhas' hfr, nextFrame_strip_collect] at h
    rw [read_next_cb r s cx k _ hhas' hfr]
    have hne := nextFrame_ne_eof_collect r s cx hfr
    obtain ⟨f1, f2, f3⟩ := nextFrame_fields_collect r s cx
    rcases hN : r.nextFrame s cx (some collect) with ⟨hd, e1, r1, s1, cx1⟩
    rw [hN] at h hne f1 f2 f3
    simp only at h hne f1 f2 f3 ⊢
    cases e1 with
    | some x =>
      simp only [Option.some.injEq, Prod.mk.injEq] at h
      obtain ⟨rfl, rfl, rfl, rfl, rfl, rfl⟩ := h
      refine ⟨rfl, Or.inl ⟨by simpa [u8Run] using htm.ok, ?_, r1, rfl, rfl, (fun hh => by cases hh)⟩⟩
      intro hh
      simp only [Option.some.injEq] at hh
      exact absurd (by rw [hh]) hne
    | none =>
      simp only at h ⊢
      have hsh : (strip r1).hasFrame = r1.hasFrame := rfl
      rw [hsh] at h
      by_cases hh1 : r1.hasFrame = false
      · rw [if_pos hh1] at h ⊢
        simp only [Option.some.injEq, Prod.mk.injEq] at h
        obtain ⟨rfl, rfl, rfl, rfl, rfl, rfl⟩ := h
        refine ⟨rfl, Or.inl ⟨by simpa [u8Run] using htm.ok, (fun hh => by cases hh), r1, rfl, rfl, fun _ => ?_⟩⟩
        simp only [u8Run, List.foldl_nil]
        rcases f3 with ⟨g1, g2, g3⟩ | ⟨_, g2, _⟩
        · refine ⟨by rw [f1]; exact htm.chk, by rw [f2]; exact htm.st, htm.ok, (fun hx => by rw [hh1] at hx; cases hx), fun hx => ?_,
            Or.inr (by simpa [Rd.fragmented, g3] using hfr)⟩
          rw [g2]; apply htm.op
          simpa [Rd.fragmented, g3] using hx
        · rw [hh1] at g2; cases g2
      · rw [if_neg hh1] at h ⊢
        have hh1' : r1.hasFrame = true := by simpa using hh1
        have htm1 : TM σ r1 := by
          rcases f3 with ⟨g1, _, _⟩ | ⟨_, _, hx, g4, g5, _⟩
          · rw [hhas'] at g1; rw [g1] at hh1'; cases hh1'
          · have hop := htm.op hfr
            refine ⟨by rw [f1]; exact htm.chk, by rw [f2]; exact htm.st, htm.ok, fun _ => ?_, fun _ => ?_, Or.inl hh1'⟩
            · rw [g4, htm.chk, hfr, hop]; simp
            · rw [g5, hfr]; simpa using hop
        exact tail_sim σ r1 s1 cx1 k htm1 hh1' bytes n e q s' cx' h hwf


/-- the accumulator of the ReadAll loop is only prepended to -/
theorem pull_acc (k : Nat) (cb : Option Callback) (fuel : Nat) : ∀ (r : Rd) (s : Src) (cx : Ctx) (acc : List Bytes),
    Rd.pull true k cb fuel r s cx acc =
      (acc.reverse ++ (Rd.pull true k cb fuel r s cx []).1, (Rd.pull true k cb fuel r s cx []).2.1,
       (Rd.pull true k cb fuel r s cx []).2.2.1, (Rd.pull true k cb fuel r s cx []).2.2.2.1, (Rd.pull true k cb fuel r s cx []).2.2.2.2) := by
  induction fuel with
  | zero => intro r s cx acc; simp [Rd.pull]
  | succ n ih =>
    intro r s cx acc
    rw [Rd.pull, Rd.pull]
    simp only [if_true]
    rcases r.read s cx k cb with _ | ⟨b, m, e, r', s', cx'⟩
    · simp
    · simp only
      cases e with
      | some e => by_cases hm : m = 0 <;> simp [hm]
      | none =>
        by_cases hm : m = 0
        · simp only [hm, if_true]
          rw [ih r' s' cx' acc]
        · simp only [hm, if_false]
          rw [ih r' s' cx' (_ :: acc), ih r' s' cx' [_]]
          simp

theorem read_idle_cb (r : Rd) (s : Src) (cx : Ctx) (k : Nat) (cb : Option Callback) (h : r.hasFrame = false) (hf : r.fragmented = false) :
    r.read s cx k cb = some ([], 0, some .noAdvance, r, s, cx) := by
  unfold Rd.read
  simp [h, hf]

theorem read_strip_n_collect (r : Rd) (s : Src) (cx : Ctx) (k : Nat) (bytes : Bytes) (n : Nat) (e : Option RErr) (q : Rd)
    (s' : Src) (cx' : Ctx) (h : (strip r).read s cx k (some collect) = some (bytes, n, e, q, s', cx')) : n = bytes.length := by
  by_cases hhas : (strip r).hasFrame = true
  · rw [read_has_cb _ _ _ _ _ hhas] at h
    exact tail_strip_n r s cx k bytes n e q s' cx' h
  · have hhas' : (strip r).hasFrame = false := by simpa using hhas
    by_cases hfrg : (strip r).fragmented = true
    · rw [read_next_cb _ _ _ _ _ hhas' hfrg, nextFrame_strip_collect] at h
      rcases hN : r.nextFrame s cx (some collect) with ⟨hd, ee, rr, ss, cc⟩
      rw [hN] at h
      simp only at h
      cases ee with
      | some x =>
        simp only [Option.some.injEq, Prod.mk.injEq] at h
        obtain ⟨h1, h2, _⟩ := h; rw [← h1, ← h2]; rfl
      | none =>
        by_cases hh1 : (strip rr).hasFrame = false
        · rw [if_pos hh1] at h
          simp only [Option.some.injEq, Prod.mk.injEq] at h
          obtain ⟨h1, h2, _⟩ := h; rw [← h1, ← h2]; rfl
        · rw [if_neg hh1] at h
          exact tail_strip_n rr ss cc k bytes n e q s' cx' h
    · have hfrg' : (strip r).fragmented = false := by simpa using hfrg
      rw [read_idle_cb _ _ _ _ _ hhas' hfrg'] at h
      simp only [Option.some.injEq, Prod.mk.injEq] at h
      obtain ⟨h1, h2, _⟩ := h; rw [← h1, ← h2]; rfl


/-- **ReadAll over the checking reader inside a TEXT message** (collecting handler installed), against the same
    loop over the non-checking reader that ran to io.EOF: the same chunks and end when the text is well-formed
    from the position `σ` reached so far, ErrInvalidUTF8 otherwise. -/
theorem pull_sim (fuel : Nat) : ∀ (σ : U8) (r : Rd) (s : Src) (cx : Ctx) (chunks : List Bytes) (q : Rd) (s' : Src) (cx' : Ctx),
    TM σ r → Rd.pull true 512 (some collect) fuel (strip r) s cx [] = (chunks, .eof, q, s', cx') → Bytes.WF chunks.flatten →
    (u8Run σ chunks.flatten = .acc → ∃ r', Rd.pull true 512 (some collect) fuel r s cx [] = (chunks, .eof, r', s', cx'))
    ∧ (u8Run σ chunks.flatten ≠ .acc → (Rd.pull true 512 (some collect) fuel r s cx []).2.1 = .utf8) := by
  induction fuel with
  | zero => intro σ r s cx chunks q s' cx' _ h _; simp [Rd.pull] at h
  | succ n ih =>
    intro σ r s cx chunks q s' cx' htm h hwf
    rw [Rd.pull] at h
    simp only [if_true] at h
    rw [Rd.pull]
    simp only [if_true]
    rcases hrd : (strip r).read s cx 512 (some collect) with _ | ⟨b, m, e, q1, s1, cx1⟩
    · rw [hrd] at h; simp at h
    rw [hrd] at h
    simp only at h
    have hm : m = b.length := read_strip_n_collect r s cx 512 b m e q1 s1 cx1 hrd
    subst hm
    have hpad : (b ++ List.replicate (b.length - b.length) 0).take b.length = b := by simp
    rw [hpad] at h
    cases e with
    | some x =>
      -- the non-checking loop ends here: with io.EOF, this chunk being the last
      simp only [Prod.mk.injEq] at h
      obtain ⟨hch0, rfl, rfl, rfl, rfl⟩ := h
      have hch : chunks = (if b.length = 0 then [] else [b]) := by rw [← hch0]; split <;> simp
      have hfl : chunks.flatten = b := by
        rw [hch]; by_cases hz : b.length = 0
        · simp [hz, List.length_eq_zero_iff.mp hz]
        · simp [hz]
      have hbwf : Bytes.WF b := by rw [← hfl]; exact hwf
      obtain ⟨_, hsim⟩ := read_sim_collect σ r s cx 512 htm b b.length (some .eof) q1 s1 cx1 hrd hbwf
      rw [hfl]
      rcases hsim with ⟨_, a2, r', a3, _, _⟩ | ⟨a1, m', r', a3, _, _⟩
      · rw [a3]
        simp only [hpad]
        refine ⟨fun _ => ⟨r', by rw [hch]; split <;> simp⟩, fun hna => absurd (a2 rfl) hna⟩
      · rw [a3]
        simp only
        refine ⟨fun hacc => ?_, fun _ => trivial⟩
        rcases a1 with a1 | ⟨_, a1⟩
        · rw [a1] at hacc; cases hacc
        · exact absurd hacc a1
    | none =>
      simp only at h
      -- the non-checking loop goes on from (q1, s1, cx1) with this chunk recorded
      rw [pull_acc] at h
      rcases hP : Rd.pull true 512 (some collect) n q1 s1 cx1 [] with ⟨pc, pe, pq, ps, pcx⟩
      rw [hP] at h
      simp only [Prod.mk.injEq] at h
      obtain ⟨hch, rfl, rfl, rfl, rfl⟩ := h
      have hfl : chunks.flatten = b ++ pc.flatten := by
        rw [← hch]; by_cases hz : b.length = 0
        · simp [hz, List.length_eq_zero_iff.mp hz]
        · simp [hz]
      have hbwf : Bytes.WF b := by rw [hfl] at hwf; exact wf_left hwf
      have hpwf : Bytes.WF pc.flatten := by rw [hfl] at hwf; exact wf_right hwf
      obtain ⟨_, hsim⟩ := read_sim_collect σ r s cx 512 htm b b.length none q1 s1 cx1 hrd hbwf
      rw [hfl, u8Run_append]
      rcases hsim with ⟨_, _, r', a3, a4, a5⟩ | ⟨a1, m', r', a3, _, _⟩
      · have htm' := a5 rfl
        rw [a3]
        simp only [hpad]
        rw [← a4] at hP
        obtain ⟨i1, i2⟩ := ih (u8Run σ b) r' s1 cx1 pc pq ps pcx htm' hP hpwf
        rw [pull_acc]
        refine ⟨fun hacc => ?_, fun hna => ?_⟩
        · obtain ⟨r'', hr''⟩ := i1 hacc
          exact ⟨r'', by rw [hr'', ← hch]⟩
        · have := i2 hna
          simpa using this
      · rw [a3]
        simp only
        refine ⟨fun hacc => ?_, fun _ => trivial⟩
        rcases a1 with a1 | ⟨a1, _⟩
        · rw [a1, u8Run_rej] at hacc; cases hacc
        · exact absurd rfl a1

end Ws.RdBin
