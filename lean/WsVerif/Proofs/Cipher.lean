/- Helper lemmas for C02 (XOR cipher). -/
import WsVerif.Model.Cipher
import WsVerif.Spec.Cipher
namespace Ws
open Ws.Spec

theorem keyAt_eq_get (m : Mask) (j : Nat) : keyAt m j = m.get j := by
  unfold keyAt Mask.get Mask.toList
  have h : j % 4 < 4 := Nat.mod_lt _ (by omega)
  generalize j % 4 = r at h
  match r, h with
  | 0, _ => rfl
  | 1, _ => rfl
  | 2, _ => rfl
  | 3, _ => rfl

theorem Mask.get_mod (m : Mask) (j : Nat) : m.get (j % 4) = m.get j := by
  unfold Mask.get; rw [Nat.mod_mod]

theorem Mask.get_congr (m : Mask) {i j : Nat} (h : i % 4 = j % 4) : m.get i = m.get j := by
  unfold Mask.get; rw [h]

theorem Mask.get0 (m : Mask) {j : Nat} (h : j % 4 = 0) : m.get j = m.m0 := by simp only [Mask.get, h]
theorem Mask.get1 (m : Mask) {j : Nat} (h : j % 4 = 1) : m.get j = m.m1 := by simp only [Mask.get, h]
theorem Mask.get2 (m : Mask) {j : Nat} (h : j % 4 = 2) : m.get j = m.m2 := by simp only [Mask.get, h]
theorem Mask.get3 (m : Mask) {j : Nat} (h : j % 4 = 3) : m.get j = m.m3 := by simp only [Mask.get, h]

theorem xorFrom_eq_spec (m : Mask) (s : Nat) (p : Bytes) : xorFrom m s p = xorSpec p m s := by
  unfold xorSpec
  induction p generalizing s with
  | nil => simp [xorFrom]
  | cons b bs ih =>
    simp only [xorFrom, List.mapIdx_cons, Nat.add_zero, keyAt_eq_get]
    congr 1
    rw [ih (s + 1)]
    congr 1
    funext i b
    simp only [keyAt_eq_get]
    congr 2; omega

theorem xorFrom_length (m : Mask) (s : Nat) (p : Bytes) : (xorFrom m s p).length = p.length := by
  induction p generalizing s with
  | nil => rfl
  | cons b bs ih => simp [xorFrom, ih]

theorem xorFrom_append (m : Mask) (s : Nat) (a b : Bytes) :
    xorFrom m s (a ++ b) = xorFrom m s a ++ xorFrom m (s + a.length) b := by
  induction a generalizing s with
  | nil => simp [xorFrom]
  | cons x xs ih =>
    simp only [List.cons_append, xorFrom, List.length_cons, ih]
    congr 3; omega

theorem xorFrom_congr (m : Mask) {s t : Nat} (h : s % 4 = t % 4) (p : Bytes) :
    xorFrom m s p = xorFrom m t p := by
  induction p generalizing s t with
  | nil => rfl
  | cons b bs ih =>
    simp only [xorFrom]
    rw [m.get_congr h, ih (s := s + 1) (t := t + 1) (by omega)]

theorem xorFrom_wf (m : Mask) (hm : m.WF) (s : Nat) (p : Bytes) (hp : Bytes.WF p) :
    Bytes.WF (xorFrom m s p) := by
  induction p generalizing s with
  | nil => intro b hb; simp [xorFrom] at hb
  | cons x xs ih =>
    intro b hb
    simp only [xorFrom, List.mem_cons] at hb
    rcases hb with hb | hb
    · subst hb
      have hx : x < 2 ^ 8 := hp x (by simp)
      have hk : m.get s < 2 ^ 8 := by
        obtain ⟨a, b, c, d⟩ := hm
        unfold Mask.get; split <;> omega
      exact Nat.xor_lt_two_pow hx hk
    · exact ih (s + 1) (fun y hy => hp y (by simp [hy])) b hb

theorem leVal_lt (c : Bytes) (hc : Bytes.WF c) : leVal c < 256 ^ c.length := by
  induction c with
  | nil => simp [leVal]
  | cons b bs ih =>
    have hb : b < 256 := hc b (by simp)
    have := ih (fun y hy => hc y (by simp [hy]))
    simp only [leVal, List.length_cons, Nat.pow_succ]
    omega

/-- Load, XOR, store on little-endian words is the lane-wise XOR of the byte lists. -/
theorem putLe_xor (a b : Bytes) (ha : Bytes.WF a) (hb : Bytes.WF b) (hl : a.length = b.length) :
    putLe a.length (leVal a ^^^ leVal b) = List.zipWith (· ^^^ ·) a b := by
  induction a generalizing b with
  | nil => simp [putLe]
  | cons x xs ih =>
    match b, hl with
    | y :: ys, hl =>
      have hx : x < 256 := ha x (by simp)
      have hy : y < 256 := hb y (by simp)
      simp only [List.length_cons, putLe, leVal, List.zipWith_cons_cons]
      have e1 : (x + 256 * leVal xs ^^^ y + 256 * leVal ys) % 256 = x ^^^ y := by
        have := @Nat.xor_mod_two_pow (x + 256 * leVal xs) (y + 256 * leVal ys) 8
        simp only [show (2 : Nat) ^ 8 = 256 by rfl] at this
        rw [this]; congr 1 <;> omega
      have e2 : (x + 256 * leVal xs ^^^ y + 256 * leVal ys) / 256 = leVal xs ^^^ leVal ys := by
        have := @Nat.xor_div_two_pow (x + 256 * leVal xs) (y + 256 * leVal ys) 8
        simp only [show (2 : Nat) ^ 8 = 256 by rfl] at this
        rw [this]; congr 1 <;> omega
      rw [e1, e2, ih ys (fun z hz => ha z (by simp [hz])) (fun z hz => hb z (by simp [hz])) (by simpa using hl)]

/-- The doubled key word `uint64(m)<<32 | uint64(m)` is the little-endian value of the key
    repeated twice. -/
theorem m2_eq (m : Mask) (hm : m.WF) :
    ((le32 m <<< 32) ||| le32 m) = leVal [m.m0, m.m1, m.m2, m.m3, m.m0, m.m1, m.m2, m.m3] := by
  obtain ⟨a, b, c, d⟩ := hm
  have h : le32 m < 2 ^ 32 := by unfold le32; omega
  rw [← Nat.shiftLeft_add_eq_or_of_lt h, Nat.shiftLeft_eq]
  simp only [leVal, le32]
  omega

/-- xorFrom on an aligned 8-byte chunk is zipWith against the key repeated twice. -/
theorem xorFrom8 (m : Mask) (s : Nat) (hs : s % 4 = 0) (c0 c1 c2 c3 c4 c5 c6 c7 : Nat) :
    xorFrom m s [c0, c1, c2, c3, c4, c5, c6, c7]
      = List.zipWith (· ^^^ ·) [c0, c1, c2, c3, c4, c5, c6, c7] [m.m0, m.m1, m.m2, m.m3, m.m0, m.m1, m.m2, m.m3] := by
  simp only [xorFrom, List.zipWith_cons_cons, List.zipWith_nil_right,
    m.get0 hs, m.get1 (show (s + 1) % 4 = 1 by omega), m.get2 (show (s + 1 + 1) % 4 = 2 by omega),
    m.get3 (show (s + 1 + 1 + 1) % 4 = 3 by omega), m.get0 (show (s + 1 + 1 + 1 + 1) % 4 = 0 by omega),
    m.get1 (show (s + 1 + 1 + 1 + 1 + 1) % 4 = 1 by omega),
    m.get2 (show (s + 1 + 1 + 1 + 1 + 1 + 1) % 4 = 2 by omega),
    m.get3 (show (s + 1 + 1 + 1 + 1 + 1 + 1 + 1) % 4 = 3 by omega)]

/-- One 64-bit load / XOR / store equals the per-byte XOR on an aligned 8-byte chunk. -/
theorem lane8 (m : Mask) (hm : m.WF) (c : Bytes) (hc : Bytes.WF c) (hl : c.length = 8)
    (s : Nat) (hs : s % 4 = 0) :
    (le64 c).map (fun w => putLe64 (w ^^^ ((le32 m <<< 32) ||| le32 m))) = some (xorFrom m s c) := by
  match c, hl with
  | [c0, c1, c2, c3, c4, c5, c6, c7], _ =>
    rw [m2_eq m hm, xorFrom8 m s hs]
    simp only [le64, List.length_cons, List.length_nil, if_true, Option.map_some, putLe64]
    congr 1
    have hk : Bytes.WF [m.m0, m.m1, m.m2, m.m3, m.m0, m.m1, m.m2, m.m3] := by
      obtain ⟨a, b, c, d⟩ := hm
      intro x hx; simp at hx; omega
    exact putLe_xor [c0, c1, c2, c3, c4, c5, c6, c7] _ hc hk rfl

/-- The 16-byte main loop equals the per-byte XOR on an aligned region of 16·n bytes. -/
theorem wordLoop_eq (m : Mask) (hm : m.WF) (n : Nat) (p : Bytes) (hp : Bytes.WF p)
    (hl : p.length = 16 * n) (s : Nat) (hs : s % 4 = 0) :
    wordLoop ((le32 m <<< 32) ||| le32 m) n p = some (xorFrom m s p) := by
  induction n generalizing p s with
  | zero =>
    have : p = [] := List.eq_nil_of_length_eq_zero (by omega)
    subst this; simp [wordLoop, xorFrom]
  | succ k ih =>
    have hsplit : p = p.take 8 ++ ((p.drop 8).take 8 ++ p.drop 16) := by
      have : p.drop 16 = (p.drop 8).drop 8 := by rw [List.drop_drop]
      rw [this, List.take_append_drop, List.take_append_drop]
    have wf_take : ∀ (q : Bytes) k, Bytes.WF q → Bytes.WF (q.take k) :=
      fun q k hq x hx => hq x (List.mem_of_mem_take hx)
    have wf_drop : ∀ (q : Bytes) k, Bytes.WF q → Bytes.WF (q.drop k) :=
      fun q k hq x hx => hq x (List.mem_of_mem_drop hx)
    have l1 : (p.take 8).length = 8 := by rw [List.length_take]; omega
    have l2 : ((p.drop 8).take 8).length = 8 := by rw [List.length_take, List.length_drop]; omega
    have l3 : (p.drop 16).length = 16 * k := by rw [List.length_drop]; omega
    have a1 := lane8 m hm (p.take 8) (wf_take p 8 hp) l1 s hs
    have a2 := lane8 m hm ((p.drop 8).take 8) (wf_take _ 8 (wf_drop p 8 hp)) l2 (s + 8) (by omega)
    have a3 := ih (p.drop 16) (wf_drop p 16 hp) l3 (s + 16) (by omega)
    simp only [wordLoop]
    cases h1 : le64 (p.take 8) with
    | none => rw [h1] at a1; simp at a1
    | some w1 =>
      cases h2 : le64 ((p.drop 8).take 8) with
      | none => rw [h2] at a2; simp at a2
      | some w2 =>
        rw [h1] at a1; rw [h2] at a2
        simp only [Option.map_some, Option.some.injEq] at a1 a2
        simp only [a3, a1, a2]
        congr 1
        conv => rhs; rw [hsplit]
        rw [xorFrom_append, xorFrom_append, l1, l2, List.append_assoc]

end Ws
