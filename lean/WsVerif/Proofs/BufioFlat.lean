/-
  readLine over a bufio.Reader is a function of the FLAT byte stream: the line returned is the bytes
  up to the first LF (CR stripped), whatever the transport's chunking, whatever the buffer size,
  whether the last bytes arrive together with the end of the stream or not. The only assumption on
  the transport is that it never returns (0, nil) (an empty chunk; bufio gives up with
  io.ErrNoProgress after 100 of those, which IS chunking-dependent, in Go as in the model).
-/
import WsVerif.Proofs.Bufio
namespace Ws

def Src.NoEmpty (s : Src) : Prop := ∀ c ∈ s.chunks, c ≠ []

/-- a bufio.Reader in good standing: a recorded error means the transport is exhausted and is its end -/
structure BOK (b : Bufio) : Prop where
  cap : 0 < b.cap
  ne : b.src.NoEmpty
  err : ∀ f, b.err = some f → b.src.chunks = [] ∧ f = b.src.fin

/-- what decreases with every transport read -/
def Bufio.meas (b : Bufio) : Nat := b.src.bytes.length + b.src.chunks.length + (if b.err.isNone then 1 else 0)

theorem src_read_ne (s : Src) (k : Nat) (hk : 0 < k) (hne : s.NoEmpty) (hc : s.chunks ≠ []) :
    (s.read k).1 ≠ [] ∧ (s.read k).2.2.NoEmpty ∧ (s.read k).2.2.fin = s.fin
    ∧ (∀ f, (s.read k).2.1 = some f → (s.read k).2.2.chunks = [] ∧ f = s.fin)
    ∧ (s.read k).2.2.bytes.length + (s.read k).2.2.chunks.length < s.bytes.length + s.chunks.length := by
  unfold Src.read
  cases h : s.chunks with
  | nil => exact absurd h hc
  | cons c cs =>
    have hcne : c ≠ [] := hne c (by rw [h]; simp)
    have hcl : 0 < c.length := List.length_pos_iff.mpr hcne
    have hcs : ∀ x ∈ cs, x ≠ [] := fun x hx => hne x (by rw [h]; simp [hx])
    simp only
    by_cases hle : c.length ≤ k
    · simp only [hle, if_true]
      refine ⟨hcne, hcs, (by first | rfl | trivial), ?_, ?_⟩
      · intro f hf
        by_cases hcc : (cs.isEmpty && s.dataWithFin) = true
        · simp only [hcc, if_true, Option.some.injEq] at hf
          simp only [Bool.and_eq_true, List.isEmpty_iff] at hcc
          exact ⟨hcc.1, hf.symm⟩
        · simp [hcc] at hf
      · simp only [Src.bytes, h, List.flatten_cons, List.length_append, List.length_cons]; omega
    · simp only [hle, if_false]
      have hgt : k < c.length := by omega
      refine ⟨?_, ?_, (by first | rfl | trivial), (fun f hf => by cases hf), ?_⟩
      · intro he
        have := congrArg List.length he
        simp only [List.length_take, List.length_nil] at this; omega
      · intro x hx
        simp only [List.mem_cons] at hx
        rcases hx with rfl | hx
        · intro he
          have := congrArg List.length he
          simp only [List.length_drop, List.length_nil] at this; omega
        · exact hcs x hx
      · simp only [Src.bytes, h, List.flatten_cons, List.length_append, List.length_cons, List.length_drop]; omega

theorem src_read_nil (s : Src) (k : Nat) (hc : s.chunks = []) : s.read k = ([], some s.fin, s) := by
  unfold Src.read; simp [hc]

/-- one fill of a buffer with room: it gains at least one byte, or records the end of the transport -/
theorem fill_spec (b : Bufio) (hok : BOK b) (hnone : b.err = none) (hlt : b.buf.length < b.cap) :
    b.fill.all = b.all ∧ BOK b.fill ∧ b.fill.src.fin = b.src.fin ∧ b.fill.cap = b.cap
    ∧ b.fill.meas < b.meas ∧ (∃ got, b.fill.buf = b.buf ++ got) := by
  have hall := Bufio.fill_all b
  refine ⟨hall, ?_⟩
  unfold Bufio.fill Bufio.fill.go
  simp only
  have hk : 0 < b.cap - b.buf.length := by omega
  by_cases hc : b.src.chunks = []
  · rw [src_read_nil _ _ hc]
    simp only [List.append_nil]
    refine ⟨⟨hok.cap, hok.ne, fun f hf => ?_⟩, (by first | rfl | trivial), (by first | rfl | trivial), ?_, ⟨[], by simp⟩⟩
    · simp only [Option.some.injEq] at hf; exact ⟨hc, hf.symm⟩
    · simp [Bufio.meas, hnone]
  · obtain ⟨h1, h2, h3, h4, h5⟩ := src_read_ne b.src _ hk hok.ne hc
    rcases hr : b.src.read (b.cap - b.buf.length) with ⟨got, e, s'⟩
    rw [hr] at h1 h2 h3 h4 h5
    simp only at h1 h2 h3 h4 h5 ⊢
    cases e with
    | some f =>
      obtain ⟨g1, g2⟩ := h4 f rfl
      refine ⟨⟨hok.cap, h2, fun f' hf' => ?_⟩, h3, (by first | rfl | trivial), ?_, ⟨got, (by first | rfl | trivial)⟩⟩
      · simp only [Option.some.injEq] at hf'; subst hf'; exact ⟨g1, by rw [g2, h3]⟩
      · simp only [Bufio.meas, hnone, Option.isNone_some, Option.isNone_none, Bool.false_eq_true, if_false, if_true]; omega
    | none =>
      have hge : got.isEmpty = false := by
        cases got with
        | nil => exact absurd rfl h1
        | cons _ _ => rfl
      simp only [hge, Bool.false_eq_true, if_false]
      refine ⟨⟨hok.cap, h2, fun f' hf' => ?_⟩, h3, (by first | rfl | trivial), ?_, ⟨got, (by first | rfl | trivial)⟩⟩
      · rw [hnone] at hf'; cases hf'
      · simp only [Bufio.meas, hnone, Option.isNone_none, if_true]; omega

theorem not_mem_take_of_idx (l : Bytes) (i : Nat) (h : l.idxOf? 10 = some i) : 10 ∉ l.take i := by
  obtain ⟨hlt, _, hbefore⟩ := List.idxOf?_eq_some_iff.mp h
  intro hm
  obtain ⟨j, hj, hget⟩ := List.getElem_of_mem hm
  simp only [List.length_take] at hj
  have hji : j < i := by omega
  have := hbefore j hji
  rw [List.getElem_take] at hget
  simp [hget] at this

theorem not_mem_of_idx_none (l : Bytes) (h : l.idxOf? 10 = none) : 10 ∉ l := by
  rw [List.idxOf?_eq_none_iff] at h; simpa using h

/-- ReadSlice('\n'), exactly: a slice ending in the first LF; or a full buffer without LF; or, at the
    end of the transport, everything that was left (without LF). -/
theorem readSlice_spec : ∀ (fuel : Nat) (b : Bufio), BOK b → b.meas < fuel →
    b.all = (b.readSlice fuel).1 ++ (b.readSlice fuel).2.2.all ∧ BOK (b.readSlice fuel).2.2
    ∧ (b.readSlice fuel).2.2.src.fin = b.src.fin ∧ (b.readSlice fuel).2.2.cap = b.cap
    ∧ (match (b.readSlice fuel).2.1 with
       | none => ∃ pre, (b.readSlice fuel).1 = pre ++ [10] ∧ 10 ∉ pre
       | some .bufferFull => 10 ∉ (b.readSlice fuel).1 ∧ (b.readSlice fuel).1 ≠ []
       | some (.io f) => 10 ∉ (b.readSlice fuel).1 ∧ (b.readSlice fuel).2.2.all = [] ∧ f = b.src.fin) := by
  intro fuel
  induction fuel with
  | zero => intro b _ h; omega
  | succ n ih =>
    intro b hok hm
    have hall := Bufio.readSlice_all b (n + 1)
    refine ⟨hall, ?_⟩
    unfold Bufio.readSlice
    cases hi : b.buf.idxOf? 10 with
    | some i =>
      simp only
      obtain ⟨hlt, h10, _⟩ := List.idxOf?_eq_some_iff.mp hi
      refine ⟨⟨hok.cap, hok.ne, hok.err⟩, (by first | rfl | trivial), (by first | rfl | trivial), b.buf.take i, ?_, not_mem_take_of_idx _ _ hi⟩
      rw [List.take_add_one, List.getElem?_eq_getElem hlt, h10]; rfl
    | none =>
      simp only
      have hno := not_mem_of_idx_none _ hi
      cases he : b.err with
      | some f =>
        simp only
        obtain ⟨g1, g2⟩ := hok.err f he
        refine ⟨⟨hok.cap, hok.ne, fun f' hf' => by cases hf'⟩, (by first | rfl | trivial), (by first | rfl | trivial), hno, ?_, g2⟩
        simp [Bufio.all, Src.bytes, g1]
      | none =>
        simp only
        by_cases hfull : b.buf.length ≥ b.cap
        · rw [if_pos hfull]
          simp only
          refine ⟨⟨hok.cap, hok.ne, fun f' hf' => by first | cases hf' | (rw [he] at hf'; cases hf')⟩, (by first | rfl | trivial), (by first | rfl | trivial), hno, ?_⟩
          intro hnil
          have := hok.cap
          rw [hnil] at hfull; simp at hfull; omega
        · rw [if_neg hfull]
          obtain ⟨f1, f2, f3, f4, f5, _⟩ := fill_spec b hok he (by omega)
          obtain ⟨_, r2, r3, r4, r5⟩ := ih b.fill f2 (by omega)
          refine ⟨r2, by rw [r3, f3], by rw [r4, f4], ?_⟩
          rw [f3] at r5
          exact r5

/-! ### readLine -/

def stripEol (l : Bytes) : Bytes :=
  if l.length > 1 ∧ l.getD (l.length - 2) 0 = 13 then l.take (l.length - 2) else l.take (l.length - 1)

/-- the line, the error and what remains readable, for a flat stream `all` ending in `fin` -/
def lineSpec (all : Bytes) (fin : Fin) : Bytes × Option Fin × Bytes :=
  match all.idxOf? 10 with
  | some i => (stripEol (all.take (i + 1)), none, all.drop (i + 1))
  | none => (all, some fin, [])

theorem idxOf_first (a rest : Bytes) (h : 10 ∉ a) : (a ++ 10 :: rest).idxOf? 10 = some a.length := by
  rw [List.idxOf?_eq_some_iff]
  refine ⟨by simp, by simp, fun j hj => ?_⟩
  rw [List.getElem_append_left (by simpa using hj)]
  intro he
  exact h (by rw [← he]; exact List.getElem_mem _)

theorem lineSpec_lf (a rest : Bytes) (fin : Fin) (h : 10 ∉ a) :
    lineSpec (a ++ 10 :: rest) fin = (stripEol (a ++ [10]), none, rest) := by
  unfold lineSpec
  rw [idxOf_first a rest h]
  simp only
  have hsplit : a ++ 10 :: rest = (a ++ [10]) ++ rest := by simp
  have hlen : (a ++ [10]).length = a.length + 1 := by simp
  have h1 : (a ++ 10 :: rest).take (a.length + 1) = a ++ [10] := by
    rw [hsplit, ← hlen, List.take_left' rfl]
  have h2 : (a ++ 10 :: rest).drop (a.length + 1) = rest := by
    rw [hsplit, ← hlen, List.drop_left' rfl]
  rw [h1, h2]

theorem lineSpec_none (a : Bytes) (fin : Fin) (h : 10 ∉ a) : lineSpec a fin = (a, some fin, []) := by
  unfold lineSpec
  have : a.idxOf? 10 = none := by rw [List.idxOf?_eq_none_iff]; simpa using h
  rw [this]

theorem readLine_go_spec : ∀ (fuel : Nat) (b : Bufio) (line : Bytes), BOK b → 10 ∉ line → b.all.length < fuel →
    ((readLine.go fuel b line).1, (readLine.go fuel b line).2.1, (readLine.go fuel b line).2.2.all)
        = lineSpec (line ++ b.all) b.src.fin
    ∧ BOK (readLine.go fuel b line).2.2 ∧ (readLine.go fuel b line).2.2.src.fin = b.src.fin
    ∧ (readLine.go fuel b line).2.2.cap = b.cap := by
  intro fuel
  induction fuel with
  | zero => intro b line _ _ h; omega
  | succ n ih =>
    intro b line hok hline hm
    have hmeas : b.meas < b.fuel := by
      unfold Bufio.meas Bufio.fuel; split <;> omega
    obtain ⟨s1, s2, s3, s4, s5⟩ := readSlice_spec b.fuel b hok hmeas
    unfold readLine.go
    rcases hrs : b.readSlice b.fuel with ⟨bts, res, b'⟩
    rw [hrs] at s1 s2 s3 s4 s5
    simp only at s1 s2 s3 s4 s5 ⊢
    cases res with
    | none =>
      obtain ⟨pre, hpre, hno⟩ := s5
      simp only
      have hl : line ++ b.all = (line ++ pre) ++ 10 :: b'.all := by rw [s1, hpre]; simp [List.append_assoc]
      have hnl : 10 ∉ line ++ pre := by
        intro hm'; rcases List.mem_append.mp hm' with h | h
        · exact hline h
        · exact hno h
      have hspec := lineSpec_lf (line ++ pre) b'.all b.src.fin hnl
      rw [hl, hspec]
      have hlb : line ++ bts = line ++ pre ++ [10] := by rw [hpre, List.append_assoc]
      refine ⟨?_, ?_⟩
      · simp only [hlb, stripEol]
        split <;> rfl
      · split <;> exact ⟨s2, s3, s4⟩
    | some se =>
      cases se with
      | bufferFull =>
        simp only
        obtain ⟨hno, hne⟩ := s5
        have hlen : b'.all.length < n := by
          have : b.all.length = bts.length + b'.all.length := by rw [s1]; simp
          have : 0 < bts.length := List.length_pos_iff.mpr hne
          omega
        have hnl : 10 ∉ line ++ bts := by
          intro hm'; rcases List.mem_append.mp hm' with h | h
          · exact hline h
          · exact hno h
        obtain ⟨i1, i2, i3, i4⟩ := ih b' (line ++ bts) s2 hnl hlen
        refine ⟨?_, i2, by rw [i3, s3], by rw [i4, s4]⟩
        rw [i1, s3, s1, List.append_assoc]
      | io f =>
        simp only
        obtain ⟨hno, hnil, hf⟩ := s5
        have hnl : 10 ∉ line ++ bts := by
          intro hm'; rcases List.mem_append.mp hm' with h | h
          · exact hline h
          · exact hno h
        refine ⟨?_, s2, s3, s4⟩
        rw [s1, hnil, List.append_nil, lineSpec_none _ _ hnl, hf]

/-- **readLine is a function of the flat stream.** -/
theorem readLine_spec (b : Bufio) (hok : BOK b) :
    ((readLine b).1, (readLine b).2.1, (readLine b).2.2.all) = lineSpec b.all b.src.fin
    ∧ BOK (readLine b).2.2 ∧ (readLine b).2.2.src.fin = b.src.fin ∧ (readLine b).2.2.cap = b.cap := by
  have := readLine_go_spec (b.buf.length + b.src.bytes.length + 4) b [] hok (by simp)
    (by simp only [Bufio.all, List.length_append]; omega)
  simpa [readLine] using this

end Ws
