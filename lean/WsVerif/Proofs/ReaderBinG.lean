/-
  Proofs/ReaderBin generalised from the collecting handler to ANY OnIntermediate handler that (1) does not look
  at the UTF-8 fields of the reader it is handed (commutes with `strip`) and (2) touches nothing of it but the
  raw count and the cipher position (`Keeps`): inside a message that is not text the checking reader is, step for
  step, the non-checking one. Generated from ReaderBin's proofs by substituting the handler; instantiated for
  `wsutil.ControlFrameHandler` at the end.
-/
import WsVerif.Proofs.ReaderBin
import WsVerif.Proofs.ReaderPong
namespace Ws.RdBin
open Ws Ws.Spec Ws.RdProof Ws.RdText Ws.RdCb

/-- what the generalisation asks of a handler -/
structure CbOk (cb : Callback) : Prop where
  strip : ∀ (h : Header) (r : Rd) (s : Src) (cx : Ctx), r.utf8on = false →
    cb h (strip r) s cx = ⟨(cb h r s cx).err, RdText.strip (cb h r s cx).rd, (cb h r s cx).src, (cb h r s cx).ctx⟩
  keeps : ∀ (h : Header) (r : Rd) (s : Src) (cx : Ctx), r.utf8on = false → Keeps r (cb h r s cx).rd

/-- NextFrame with such a handler commutes with `strip`. -/
theorem nextFrame_strip_g (cb : Callback) (hcb : CbOk cb) (r : Rd) (s : Src) (cx : Ctx) :
    (strip r).nextFrame s cx (some cb) =
      ((r.nextFrame s cx (some cb)).1, (r.nextFrame s cx (some cb)).2.1, strip (r.nextFrame s cx (some cb)).2.2.1,
       (r.nextFrame s cx (some cb)).2.2.2.1, (r.nextFrame s cx (some cb)).2.2.2.2) := by
  obtain ⟨st, sk, ck, ex, co, mf, oc, hf, rn, mk, msk, cp, uon, u8⟩ := r
  unfold Rd.nextFrame
  simp only [strip]
  rcases readHeaderUtil s with ⟨res, s1⟩
  cases res with
  | error e =>
    cases e with
    | io f => cases f <;> rfl
    | _ => rfl
  | ok hdr =>
    have key : ∀ (ck0 : Option ProtoErr) (x : Header × Option ProtoErr × Bool),
        (match ck0 with
          | some pe => ((some hdr, some (RErr.proto pe), (⟨st, sk, false, ex, co, mf, oc, hf, rn, mk, msk, cp, false, {}⟩ : Rd), s1, cx) : Option Header × Option RErr × Rd × Src × Ctx)
          | none =>
            if mf > 0 ∧ hdr.len > mf then (some hdr, some .tooLarge, ⟨st, sk, false, ex, co, mf, oc, hf, rn, mk, msk, cp, false, {}⟩, s1, cx)
            else
              let r1 : Rd := ⟨st, sk, false, ex, co, mf, oc, hf, hdr.len, hdr.masked, hdr.mask, 0, false, {}⟩
              let r2 := { r1 with compressed := x.2.2 }
              match x.2.1 with
              | some pe => (some x.1, some (.proto pe), (⟨st, sk, false, ex, x.2.2, mf, oc, hf, hdr.len, mk, (if hdr.masked then hdr.mask else msk), (if hdr.masked then 0 else cp), false, {}⟩ : Rd), s1, cx)
              | none =>
                if r2.fragmented && opIsControl x.1.op then
                  let res := cb x.1 r2 s1 cx
                  match res.err with
                  | some e => (some x.1, some e, res.rd, res.src, res.ctx)
                  | none =>
                    let (e, r3, s3) := res.rd.drainRaw res.src res.src.fuel
                    (some x.1, e, r3, s3, res.ctx)
                else
                  let r3 := if r2.fragmented then r2 else { r2 with opCode := x.1.op }
                  let useUtf8 := r3.checkUTF8 && (x.1.op == opText || (r3.fragmented && r3.opCode == opText))
                  let r4 := { r3 with utf8on := useUtf8, hasFrame := true }
                  let r5 := { r4 with state := if x.1.fin then stClear r4.state stFragmented else stSet r4.state stFragmented }
                  (some x.1, none, r5, s1, cx))
        = (let q : Option Header × Option RErr × Rd × Src × Ctx :=
            (match ck0 with
            | some pe => (some hdr, some (RErr.proto pe), (⟨st, sk, ck, ex, co, mf, oc, hf, rn, mk, msk, cp, uon, u8⟩ : Rd), s1, cx)
            | none =>
              if mf > 0 ∧ hdr.len > mf then (some hdr, some .tooLarge, ⟨st, sk, ck, ex, co, mf, oc, hf, rn, mk, msk, cp, uon, u8⟩, s1, cx)
              else
                let r1 : Rd := ⟨st, sk, ck, ex, co, mf, oc, hf, hdr.len, hdr.masked, hdr.mask, 0, false, u8⟩
                let r2 := { r1 with compressed := x.2.2 }
                match x.2.1 with
                | some pe => (some x.1, some (.proto pe), (⟨st, sk, ck, ex, x.2.2, mf, oc, hf, hdr.len, mk, (if hdr.masked then hdr.mask else msk), (if hdr.masked then 0 else cp), uon, u8⟩ : Rd), s1, cx)
                | none =>
                  if r2.fragmented && opIsControl x.1.op then
                    let res := cb x.1 r2 s1 cx
                    match res.err with
                    | some e => (some x.1, some e, res.rd, res.src, res.ctx)
                    | none =>
                      let (e, r3, s3) := res.rd.drainRaw res.src res.src.fuel
                      (some x.1, e, r3, s3, res.ctx)
                  else
                    let r3 := if r2.fragmented then r2 else { r2 with opCode := x.1.op }
                    let useUtf8 := r3.checkUTF8 && (x.1.op == opText || (r3.fragmented && r3.opCode == opText))
                    let r4 := { r3 with utf8on := useUtf8, hasFrame := true }
                    let r5 := { r4 with state := if x.1.fin then stClear r4.state stFragmented else stSet r4.state stFragmented }
                    (some x.1, none, r5, s1, cx))
           (q.1, q.2.1, strip q.2.2.1, q.2.2.2.1, q.2.2.2.2)) := by
      intro ck0 x
      obtain ⟨h2, xe, comp⟩ := x
      cases ck0 with
      | some pe => rfl
      | none =>
        simp only
        by_cases hmf : mf > 0 ∧ hdr.len > mf
        · simp only [hmf, and_self, if_true]; rfl
        · simp only [hmf, if_false]
          cases xe with
          | some pe => rfl
          | none =>
            simp only [Rd.fragmented]
            by_cases hb : (stIs st stFragmented && opIsControl h2.op) = true
            · simp only [hb, if_true]
              have hc := hcb.strip h2 ⟨st, sk, ck, ex, comp, mf, oc, hf, hdr.len, hdr.masked, hdr.mask, 0, false, u8⟩ s1 cx rfl
              simp only [strip] at hc
              rw [hc]
              rcases cb h2 ⟨st, sk, ck, ex, comp, mf, oc, hf, hdr.len, hdr.masked, hdr.mask, 0, false, u8⟩ s1 cx with ⟨ce, crd, csrc, cctx⟩
              simp only
              cases ce with
              | some e => rfl
              | none =>
                simp only
                have hd := drainRaw_strip crd csrc csrc.fuel
                simp only [strip] at hd ⊢
                rw [hd]
            · simp only [hb, if_false]
              by_cases hfr : stIs st stFragmented = true <;> simp [hfr, strip]
    exact key _ _

theorem nextFrame_fields_g2 (cb : Callback) (hcb : CbOk cb) (r : Rd) (s : Src) (cx : Ctx) :
    (r.nextFrame s cx (some cb)).2.2.1.skipCheck = r.skipCheck ∧ (r.nextFrame s cx (some cb)).2.2.1.ext = r.ext
    ∧ (r.nextFrame s cx (some cb)).2.2.1.checkUTF8 = r.checkUTF8 ∧ (r.nextFrame s cx (some cb)).2.2.1.utf8 = r.utf8
    ∧ (((r.nextFrame s cx (some cb)).2.2.1.hasFrame = r.hasFrame ∧ (r.nextFrame s cx (some cb)).2.2.1.opCode = r.opCode
          ∧ (r.nextFrame s cx (some cb)).2.2.1.state = r.state)
       ∨ ((r.nextFrame s cx (some cb)).2.1 = none ∧ (r.nextFrame s cx (some cb)).2.2.1.hasFrame = true
          ∧ ∃ h : Header, (r.nextFrame s cx (some cb)).2.2.1.utf8on = (r.checkUTF8 && (h.op == opText || (r.fragmented && r.opCode == opText)))
              ∧ (r.nextFrame s cx (some cb)).2.2.1.opCode = (if r.fragmented then r.opCode else h.op)
              ∧ (r.nextFrame s cx (some cb)).1 = some h
              ∧ (r.ext = false → (if r.skipCheck then none else checkHeader h r.state) = none)
              ∧ (r.nextFrame s cx (some cb)).2.2.1.state = (if h.fin then stClear r.state stFragmented else stSet r.state stFragmented))) := by
  obtain ⟨st, sk, ck, ex, co, mf, oc, hf, rn, mk, msk, cp, uon, u8⟩ := r
  unfold Rd.nextFrame
  rcases readHeaderUtil s with ⟨res, s1⟩
  cases res with
  | error e =>
    cases e with
    | io f => cases f <;> exact ⟨rfl, rfl, rfl, rfl, Or.inl ⟨rfl, rfl, rfl⟩⟩
    | _ => exact ⟨rfl, rfl, rfl, rfl, Or.inl ⟨rfl, rfl, rfl⟩⟩
  | ok hdr =>
    simp only
    generalize hck : (if sk = true then none else checkHeader hdr st) = ck0
    cases ck0 with
    | some pe => exact ⟨rfl, rfl, rfl, rfl, Or.inl ⟨rfl, rfl, rfl⟩⟩
    | none =>
      simp only
      by_cases hmf : mf > 0 ∧ hdr.len > mf
      · rw [if_pos hmf]; exact ⟨rfl, rfl, rfl, rfl, Or.inl ⟨rfl, rfl, rfl⟩⟩
      · rw [if_neg hmf]
        generalize hx : (if ex = true then unsetBits co hdr else (hdr, none, co)) = x
        obtain ⟨h2, xe, comp⟩ := x
        cases xe with
        | some pe => exact ⟨rfl, rfl, rfl, rfl, Or.inl ⟨rfl, rfl, rfl⟩⟩
        | none =>
          simp only [Rd.fragmented]
          by_cases hb : (stIs st stFragmented && opIsControl h2.op) = true
          · simp only [hb, if_true]
            have hk := hcb.keeps h2 ⟨st, sk, ck, ex, comp, mf, oc, hf, hdr.len, hdr.masked, hdr.mask, 0, false, u8⟩ s1 cx rfl
            rcases hcol : cb h2 ⟨st, sk, ck, ex, comp, mf, oc, hf, hdr.len, hdr.masked, hdr.mask, 0, false, u8⟩ s1 cx with ⟨ce, crd, csrc, cctx⟩
            rw [hcol] at hk
            simp only at hk ⊢
            cases ce with
            | some e =>
              simp only
              rw [hk]
              exact ⟨rfl, rfl, rfl, rfl, Or.inl ⟨rfl, rfl, rfl⟩⟩
            | none =>
              simp only
              have h := drainRaw_only_rawN crd csrc csrc.fuel
              rw [h, hk]
              exact ⟨rfl, rfl, rfl, rfl, Or.inl ⟨rfl, rfl, rfl⟩⟩
          · simp only [hb, if_false]
            have hh2 : ex = false → h2 = hdr := by
              intro hex; rw [hex] at hx; simp only [Bool.false_eq_true, if_false, Prod.mk.injEq] at hx; exact hx.1.symm
            refine ⟨?_, ?_, ?_, ?_, Or.inr ⟨rfl, rfl, h2, ?_, ?_, rfl, ?_, ?_⟩⟩
            · by_cases hfr : stIs st stFragmented = true <;> simp [hfr]
            · by_cases hfr : stIs st stFragmented = true <;> simp [hfr]
            · by_cases hfr : stIs st stFragmented = true <;> simp [hfr]
            · by_cases hfr : stIs st stFragmented = true <;> simp [hfr]
            · by_cases hfr : stIs st stFragmented = true <;> simp [hfr]
            · by_cases hfr : stIs st stFragmented = true <;> simp [hfr]
            · intro hex; rw [hh2 hex]; exact hck
            · by_cases hfr : stIs st stFragmented = true <;> simp [hfr]

/-- **One Read of the checking reader inside a message that is not text** (such a handler installed): the
    same transport reads, bytes, count and error as the non-checking reader, and the invariant is kept. -/
theorem read_bin_g (cb : Callback) (hcb : CbOk cb) (r : Rd) (s : Src) (cx : Ctx) (k : Nat) (hb : Bin r) :
    (strip r).read s cx k (some cb) = mapRd strip (r.read s cx k (some cb))
    ∧ (∀ b n r' s' cx', r.read s cx k (some cb) = some (b, n, none, r', s', cx') → Bin r') := by
  by_cases hh : r.hasFrame = true
  · rw [read_has_cb r s cx k _ hh, read_has_cb (strip r) s cx k _ hh]
    refine ⟨tail_bin r s cx k (hb.off hh) hb.fresh, ?_⟩
    intro b n r' s' cx' h
    obtain ⟨q, hk, hq⟩ := tail_none r s cx k (hb.off hh) b n r' s' cx' h
    obtain ⟨hbq, hqh⟩ := keeps_bin hk hb hh
    rcases hq with rfl | ⟨hqf, rfl⟩
    · exact hbq
    · exact ⟨(fun h => by simp [Rd.resetFragment] at h), hbq.fresh, hbq.op, hbq.skip, hbq.ext, fun _ => hqf⟩
  · have hh' : r.hasFrame = false := by simpa using hh
    have hf := hb.frag hh'
    rw [read_next_cb r s cx k _ hh' hf, read_next_cb (strip r) s cx k _ hh' hf, (nextFrame_strip_g cb hcb)]
    obtain ⟨f1, f2, f3, f4, f5⟩ := (nextFrame_fields_g2 cb hcb) r s cx
    rcases hN : r.nextFrame s cx (some cb) with ⟨hd, e1, r1, s1, cx1⟩
    rw [hN] at f1 f2 f3 f4 f5
    simp only at f1 f2 f3 f4 f5 ⊢
    cases e1 with
    | some x => exact ⟨rfl, fun b n r' s' cx' h => by simp at h⟩
    | none =>
      simp only
      have hsh : (strip r1).hasFrame = r1.hasFrame := rfl
      rw [hsh]
      by_cases h1 : r1.hasFrame = false
      · simp only [h1, if_true]
        refine ⟨rfl, ?_⟩
        intro b n r' s' cx' h
        simp only [Option.some.injEq, Prod.mk.injEq] at h
        obtain ⟨_, _, _, rfl, _⟩ := h
        rcases f5 with ⟨g1, g2, g3⟩ | ⟨_, g2, _⟩
        · refine ⟨(fun h => by rw [h1] at h; cases h), (by rw [f4]; exact hb.fresh), (by rw [g2]; exact hb.op), (by rw [f1]; exact hb.skip),
            (by rw [f2]; exact hb.ext), fun _ => ?_⟩
          simpa [Rd.fragmented, g3] using hf
        · rw [h1] at g2; cases g2
      · have h1' : r1.hasFrame = true := by simpa using h1
        simp only [h1, if_false]
        -- a data frame was entered: a continuation (the header check refuses a text frame here), so no validator
        have hb1 : Bin r1 := by
          rcases f5 with ⟨g1, _, _⟩ | ⟨_, _, h, g4, g5, _, g7, _⟩
          · rw [g1, hh'] at h1'; cases h1'
          · have hck : checkHeader h r.state = none := by simpa [hb.skip] using g7 hb.ext
            have hnt : h.op ≠ opText := frag_refuses_text h r.state (by simpa [Rd.fragmented] using hf) hck
            refine ⟨fun _ => ?_, (by rw [f4]; exact hb.fresh), ?_, (by rw [f1]; exact hb.skip), (by rw [f2]; exact hb.ext),
              (fun h => by rw [h1'] at h; cases h)⟩
            · rw [g4]
              have : (h.op == opText) = false := by simpa using hnt
              have h2 : (r.opCode == opText) = false := by simpa using hb.op
              simp [this, h2]
            · rw [g5, hf]; simpa using hb.op
        refine ⟨tail_bin r1 s1 cx1 k (hb1.off h1') hb1.fresh, ?_⟩
        intro b n r' s' cx' h
        obtain ⟨q, hk, hq⟩ := tail_none r1 s1 cx1 k (hb1.off h1') b n r' s' cx' h
        obtain ⟨hbq, hqh⟩ := keeps_bin hk hb1 h1'
        rcases hq with rfl | ⟨hqf, rfl⟩
        · exact hbq
        · exact ⟨(fun h => by simp [Rd.resetFragment] at h), hbq.fresh, hbq.op, hbq.skip, hbq.ext, fun _ => hqf⟩

/-- **ReadAll over the checking reader inside a message that is not text**: the loop of the non-checking one. -/
theorem pull_bin_g (cb : Callback) (hcb : CbOk cb) (fuel : Nat) : ∀ (r : Rd) (s : Src) (cx : Ctx) (acc : List Bytes), Bin r →
    Rd.pull true 512 (some cb) fuel (strip r) s cx acc =
      ((Rd.pull true 512 (some cb) fuel r s cx acc).1, (Rd.pull true 512 (some cb) fuel r s cx acc).2.1,
       strip (Rd.pull true 512 (some cb) fuel r s cx acc).2.2.1, (Rd.pull true 512 (some cb) fuel r s cx acc).2.2.2.1,
       (Rd.pull true 512 (some cb) fuel r s cx acc).2.2.2.2) := by
  induction fuel with
  | zero => intro r s cx acc _; rfl
  | succ n ih =>
    intro r s cx acc hb
    obtain ⟨h1, h2⟩ := (read_bin_g cb hcb) r s cx 512 hb
    rw [Rd.pull, Rd.pull]
    simp only [if_true]
    rw [h1]
    rcases hr : r.read s cx 512 (some cb) with _ | ⟨b, m, e, r', s', cx'⟩
    · rfl
    · simp only [mapRd]
      cases e with
      | some e => rfl
      | none => exact ih r' s' cx' _ (h2 b m r' s' cx' hr)

/-- `wsutil.ControlFrameHandler` is such a handler: it reads the control payload through the frame stack it is handed
    and otherwise deals with the destination only. -/
theorem ctlHandler_ok (client : Bool) (errText : ProtoErr → Bytes) : CbOk (controlFrameHandler client errText false none) := by
  constructor
  · intro h r s cx hoff
    unfold controlFrameHandler
    by_cases hnp : h.len ≠ 0 ∧ (h.op = opPing ∨ h.op = opPong ∨ h.op = opClose)
    · have hnn : ¬ ¬ (h.len ≠ 0 ∧ (h.op = opPing ∨ h.op = opPong ∨ h.op = opClose)) := fun x => x hnp
      simp only [if_neg hnn]
      rw [pullFrame_strip 32768 (pullFuel s) r s cx [] hoff]
      rcases Rd.pull false 32768 none (pullFuel s) r s cx [] with ⟨chunks, e, r', s', cx'⟩
      simp only
      cases rdErrOf e with
      | none => rfl
      | some x =>
        simp only
        cases handleControl client h { chunks := chunks, fin := if e = RErr.fail then Fin.fail else Fin.eof, ueofEnd := decide (e = RErr.ueof) } false cx'.env errText with
        | none => rfl
        | some p => rfl
    · simp only [if_pos hnp]
      cases handleControl client h { chunks := [] } false cx.env errText with
      | none => rfl
      | some p => rfl
  · intro h r s cx hoff
    unfold controlFrameHandler
    by_cases hnp : h.len ≠ 0 ∧ (h.op = opPing ∨ h.op = opPong ∨ h.op = opClose)
    · have hnn : ¬ ¬ (h.len ≠ 0 ∧ (h.op = opPing ∨ h.op = opPong ∨ h.op = opClose)) := fun x => x hnp
      simp only [if_neg hnn]
      have hk := (pullFrame_keeps 32768 (pullFuel s) r s cx [] hoff).1
      rcases hp : Rd.pull false 32768 none (pullFuel s) r s cx [] with ⟨chunks, e, r', s', cx'⟩
      rw [hp] at hk
      simp only at hk ⊢
      cases rdErrOf e with
      | none => exact hk
      | some x =>
        simp only
        cases handleControl client h { chunks := chunks, fin := if e = RErr.fail then Fin.fail else Fin.eof, ueofEnd := decide (e = RErr.ueof) } false cx'.env errText with
        | none => exact hk
        | some p => exact hk
    · simp only [if_pos hnp]
      cases handleControl client h { chunks := [] } false cx.env errText with
      | none => exact Keeps.refl r
      | some p => exact Keeps.refl r

end Ws.RdBin
