/-
  The TEXT simulation of Proofs/ReaderText / ReaderBin (second half) for ANY OnIntermediate handler of the `CbOk`
  kind that, handed a control frame's payload (`rawN` = the announced length), never reports io.EOF (`CbNe`):
  generated from ReaderBin's proofs by substituting the handler. `wsutil.ControlFrameHandler` is one
  (Proofs/HandlerEof.ctlHandler_ne_eof).
-/
import WsVerif.Proofs.HandlerEof
namespace Ws.RdBin
open Ws Ws.Spec Ws.RdProof Ws.RdText Ws.RdCb

/-- handed a control frame's payload, the handler never reports io.EOF -/
def CbNe (cb : Callback) : Prop :=
  ∀ (h : Header) (r : Rd) (s : Src) (cx : Ctx), r.utf8on = false → r.rawN = h.len → (cb h r s cx).err ≠ some .eof

theorem unsetBits_len (c : Bool) (h : Header) : (unsetBits c h).1.len = h.len := by
  unfold unsetBits
  simp only
  split
  · rfl
  · split <;> rfl

theorem nextFrame_fields_g (cb : Callback) (hcb : CbOk cb) (r : Rd) (s : Src) (cx : Ctx) :
    (r.nextFrame s cx (some cb)).2.2.1.checkUTF8 = r.checkUTF8 ∧ (r.nextFrame s cx (some cb)).2.2.1.utf8 = r.utf8
    ∧ (((r.nextFrame s cx (some cb)).2.2.1.hasFrame = r.hasFrame ∧ (r.nextFrame s cx (some cb)).2.2.1.opCode = r.opCode
          ∧ (r.nextFrame s cx (some cb)).2.2.1.state = r.state)
       ∨ ((r.nextFrame s cx (some cb)).2.1 = none ∧ (r.nextFrame s cx (some cb)).2.2.1.hasFrame = true
          ∧ ∃ h : Header, (r.nextFrame s cx (some cb)).2.2.1.utf8on = (r.checkUTF8 && (h.op == opText || (r.fragmented && r.opCode == opText)))
              ∧ (r.nextFrame s cx (some cb)).2.2.1.opCode = (if r.fragmented then r.opCode else h.op)
              ∧ (r.nextFrame s cx (some cb)).1 = some h)) := by
  obtain ⟨st, sk, ck, ex, co, mf, oc, hf, rn, mk, msk, cp, uon, u8⟩ := r
  unfold Rd.nextFrame
  rcases readHeaderUtil s with ⟨res, s1⟩
  cases res with
  | error e =>
    cases e with
    | io f => cases f <;> exact ⟨rfl, rfl, Or.inl ⟨rfl, rfl, rfl⟩⟩
    | _ => exact ⟨rfl, rfl, Or.inl ⟨rfl, rfl, rfl⟩⟩
  | ok hdr =>
    simp only
    generalize (if sk = true then none else checkHeader hdr st) = ck0
    cases ck0 with
    | some pe => exact ⟨rfl, rfl, Or.inl ⟨rfl, rfl, rfl⟩⟩
    | none =>
      simp only
      by_cases hmf : mf > 0 ∧ hdr.len > mf
      · rw [if_pos hmf]; exact ⟨rfl, rfl, Or.inl ⟨rfl, rfl, rfl⟩⟩
      · rw [if_neg hmf]
        generalize (if ex = true then unsetBits co hdr else (hdr, none, co)) = x
        obtain ⟨h2, xe, comp⟩ := x
        cases xe with
        | some pe => exact ⟨rfl, rfl, Or.inl ⟨rfl, rfl, rfl⟩⟩
        | none =>
          simp only [Rd.fragmented]
          by_cases hb : (stIs st stFragmented && opIsControl h2.op) = true
          · simp only [hb, if_true]
            have hk := hcb.keeps h2 ⟨st, sk, ck, ex, comp, mf, oc, hf, hdr.len, hdr.masked, hdr.mask, 0, false, u8⟩ s1 cx rfl
            rcases hcol : cb h2 ⟨st, sk, ck, ex, comp, mf, oc, hf, hdr.len, hdr.masked, hdr.mask, 0, false, u8⟩ s1 cx with ⟨ce, crd, csrc, cctx⟩
            rw [hcol] at hk
            simp only at hk ⊢
            cases ce with
            | some e =>
              simp only
              rw [hk]
              exact ⟨rfl, rfl, Or.inl ⟨rfl, rfl, rfl⟩⟩
            | none =>
              simp only
              have h := drainRaw_only_rawN crd csrc csrc.fuel
              rw [h, hk]
              exact ⟨rfl, rfl, Or.inl ⟨rfl, rfl, rfl⟩⟩
          · simp only [hb, if_false]
            refine ⟨?_, ?_, Or.inr ⟨rfl, rfl, h2, ?_, ?_, rfl⟩⟩ <;>
              (by_cases hfr : stIs st stFragmented = true <;> simp [hfr])

theorem nextFrame_ne_eof_g (cb : Callback) (hcb : CbOk cb) (hne : CbNe cb) (r : Rd) (s : Src) (cx : Ctx) (hf : r.fragmented = true) :
    (r.nextFrame s cx (some cb)).2.1 ≠ some .eof := by
  obtain ⟨st, sk, ck, ex, co, mf, oc, hf0, rn, mk, msk, cp, uon, u8⟩ := r
  simp only [Rd.fragmented] at hf
  unfold Rd.nextFrame
  rcases readHeaderUtil s with ⟨res, s1⟩
  cases res with
  | error e =>
    cases e with
    | io f => cases f <;> simp [Rd.fragmented, hf]
    | _ => simp
  | ok hdr =>
    simp only
    generalize (if sk = true then none else checkHeader hdr st) = ck0
    cases ck0 with
    | some pe => simp
    | none =>
      simp only
      by_cases hmf : mf > 0 ∧ hdr.len > mf
      · rw [if_pos hmf]; simp
      · rw [if_neg hmf]
        have hxl : (if ex = true then unsetBits co hdr else (hdr, none, co)).1.len = hdr.len := by
          split
          · exact unsetBits_len co hdr
          · rfl
        generalize (if ex = true then unsetBits co hdr else (hdr, none, co)) = x at hxl ⊢
        obtain ⟨h2, xe, comp⟩ := x
        simp only at hxl
        cases xe with
        | some pe => simp
        | none =>
          simp only [Rd.fragmented]
          by_cases hb : (stIs st stFragmented && opIsControl h2.op) = true
          · simp only [hb, if_true]
            have hce := hne h2 ⟨st, sk, ck, ex, comp, mf, oc, hf0, hdr.len, hdr.masked, hdr.mask, 0, false, u8⟩ s1 cx rfl hxl.symm
            rcases hcol : cb h2 ⟨st, sk, ck, ex, comp, mf, oc, hf0, hdr.len, hdr.masked, hdr.mask, 0, false, u8⟩ s1 cx with ⟨ce, crd, csrc, cctx⟩
            rw [hcol] at hce
            simp only at hce ⊢
            cases ce with
            | some e => simpa using hce
            | none => exact drainRaw_ne_eof _ _ _
          · simp only [hb]
            simp

/-- **One Read, anywhere inside a text message.** -/
theorem read_sim_g (cb : Callback) (hcb : CbOk cb) (hne : CbNe cb) (σ : U8) (r : Rd) (s : Src) (cx : Ctx) (k : Nat) (htm : TM σ r)
    (bytes : Bytes) (n : Nat) (e : Option RErr) (q : Rd) (s' : Src) (cx' : Ctx)
    (h : (strip r).read s cx k (some cb) = some (bytes, n, e, q, s', cx')) (hwf : Bytes.WF bytes) :
    SimOut σ (r.read s cx k (some cb)) bytes n e q s' cx' := by
  by_cases hhas : r.hasFrame = true
  · rw [read_has_cb _ _ _ _ _ (by exact hhas)] at h
    rw [read_has_cb _ _ _ _ _ hhas]
    exact tail_sim σ r s cx k htm hhas bytes n e q s' cx' h hwf
  · have hhas' : r.hasFrame = false := by simpa using hhas
    have hfr : r.fragmented = true := by
      rcases htm.mid with h1 | h1
      · exact absurd h1 hhas
      · exact h1
    rw [read_next_cb (strip r) s cx k _ hhas' hfr, (nextFrame_strip_g cb hcb)] at h
    rw [read_next_cb r s cx k _ hhas' hfr]
    have hne := (nextFrame_ne_eof_g cb hcb hne) r s cx hfr
    obtain ⟨f1, f2, f3⟩ := (nextFrame_fields_g cb hcb) r s cx
    rcases hN : r.nextFrame s cx (some cb) with ⟨hd, e1, r1, s1, cx1⟩
    rw [hN] at h hne f1 f2 f3
    simp only at h hne f1 f2 f3 ⊢
    cases e1 with
    | some x =>
      simp only [Option.some.injEq, Prod.mk.injEq] at h
      obtain ⟨rfl, rfl, rfl, rfl, rfl, rfl⟩ := h
      refine ⟨rfl, Or.inl ⟨by simpa [u8Run] using htm.ok, ?_, r1, rfl, rfl, (fun hh => by cases hh)⟩⟩
      intro hh
      simp only [Option.some.injEq] at hh
      exact absurd (by rw [hh]) hne
    | none =>
      simp only at h ⊢
      have hsh : (strip r1).hasFrame = r1.hasFrame := rfl
      rw [hsh] at h
      by_cases hh1 : r1.hasFrame = false
      · rw [if_pos hh1] at h ⊢
        simp only [Option.some.injEq, Prod.mk.injEq] at h
        obtain ⟨rfl, rfl, rfl, rfl, rfl, rfl⟩ := h
        refine ⟨rfl, Or.inl ⟨by simpa [u8Run] using htm.ok, (fun hh => by cases hh), r1, rfl, rfl, fun _ => ?_⟩⟩
        simp only [u8Run, List.foldl_nil]
        rcases f3 with ⟨g1, g2, g3⟩ | ⟨_, g2, _⟩
        · refine ⟨by rw [f1]; exact htm.chk, by rw [f2]; exact htm.st, htm.ok, (fun hx => by rw [hh1] at hx; cases hx), fun hx => ?_,
            Or.inr (by simpa [Rd.fragmented, g3] using hfr)⟩
          rw [g2]; apply htm.op
          simpa [Rd.fragmented, g3] using hx
        · rw [hh1] at g2; cases g2
      · rw [if_neg hh1] at h ⊢
        have hh1' : r1.hasFrame = true := by simpa using hh1
        have htm1 : TM σ r1 := by
          rcases f3 with ⟨g1, _, _⟩ | ⟨_, _, hx, g4, g5, _⟩
          · rw [hhas'] at g1; rw [g1] at hh1'; cases hh1'
          · have hop := htm.op hfr
            refine ⟨by rw [f1]; exact htm.chk, by rw [f2]; exact htm.st, htm.ok, fun _ => ?_, fun _ => ?_, Or.inl hh1'⟩
            · rw [g4, htm.chk, hfr, hop]; simp
            · rw [g5, hfr]; simpa using hop
        exact tail_sim σ r1 s1 cx1 k htm1 hh1' bytes n e q s' cx' h hwf

theorem read_strip_n_g (cb : Callback) (hcb : CbOk cb) (r : Rd) (s : Src) (cx : Ctx) (k : Nat) (bytes : Bytes) (n : Nat) (e : Option RErr) (q : Rd)
    (s' : Src) (cx' : Ctx) (h : (strip r).read s cx k (some cb) = some (bytes, n, e, q, s', cx')) : n = bytes.length := by
  by_cases hhas : (strip r).hasFrame = true
  · rw [read_has_cb _ _ _ _ _ hhas] at h
    exact tail_strip_n r s cx k bytes n e q s' cx' h
  · have hhas' : (strip r).hasFrame = false := by simpa using hhas
    by_cases hfrg : (strip r).fragmented = true
    · rw [read_next_cb _ _ _ _ _ hhas' hfrg, (nextFrame_strip_g cb hcb)] at h
      rcases hN : r.nextFrame s cx (some cb) with ⟨hd, ee, rr, ss, cc⟩
      rw [hN] at h
      simp only at h
      cases ee with
      | some x =>
        simp only [Option.some.injEq, Prod.mk.injEq] at h
        obtain ⟨h1, h2, _⟩ := h; rw [← h1, ← h2]; rfl
      | none =>
        by_cases hh1 : (strip rr).hasFrame = false
        · rw [if_pos hh1] at h
          simp only [Option.some.injEq, Prod.mk.injEq] at h
          obtain ⟨h1, h2, _⟩ := h; rw [← h1, ← h2]; rfl
        · rw [if_neg hh1] at h
          exact tail_strip_n rr ss cc k bytes n e q s' cx' h
    · have hfrg' : (strip r).fragmented = false := by simpa using hfrg
      rw [read_idle_cb _ _ _ _ _ hhas' hfrg'] at h
      simp only [Option.some.injEq, Prod.mk.injEq] at h
      obtain ⟨h1, h2, _⟩ := h; rw [← h1, ← h2]; rfl

/-- **ReadAll over the checking reader inside a TEXT message** (such a handler installed), against the same
    loop over the non-checking reader that ran to io.EOF: the same chunks and end when the text is well-formed
    from the position `σ` reached so far, ErrInvalidUTF8 otherwise. -/
theorem pull_sim_g (cb : Callback) (hcb : CbOk cb) (hne : CbNe cb) (fuel : Nat) : ∀ (σ : U8) (r : Rd) (s : Src) (cx : Ctx) (chunks : List Bytes) (q : Rd) (s' : Src) (cx' : Ctx),
    TM σ r → Rd.pull true 512 (some cb) fuel (strip r) s cx [] = (chunks, .eof, q, s', cx') → Bytes.WF chunks.flatten →
    (u8Run σ chunks.flatten = .acc → ∃ r', Rd.pull true 512 (some cb) fuel r s cx [] = (chunks, .eof, r', s', cx'))
    ∧ (u8Run σ chunks.flatten ≠ .acc → (Rd.pull true 512 (some cb) fuel r s cx []).2.1 = .utf8) := by
  induction fuel with
  | zero => intro σ r s cx chunks q s' cx' _ h _; simp [Rd.pull] at h
  | succ n ih =>
    intro σ r s cx chunks q s' cx' htm h hwf
    rw [Rd.pull] at h
    simp only [if_true] at h
    rw [Rd.pull]
    simp only [if_true]
    rcases hrd : (strip r).read s cx 512 (some cb) with _ | ⟨b, m, e, q1, s1, cx1⟩
    · rw [hrd] at h; simp at h
    rw [hrd] at h
    simp only at h
    have hm : m = b.length := (read_strip_n_g cb hcb) r s cx 512 b m e q1 s1 cx1 hrd
    subst hm
    have hpad : (b ++ List.replicate (b.length - b.length) 0).take b.length = b := by simp
    rw [hpad] at h
    cases e with
    | some x =>
      -- the non-checking loop ends here: with io.EOF, this chunk being the last
      simp only [Prod.mk.injEq] at h
      obtain ⟨hch0, rfl, rfl, rfl, rfl⟩ := h
      have hch : chunks = (if b.length = 0 then [] else [b]) := by rw [← hch0]; split <;> simp
      have hfl : chunks.flatten = b := by
        rw [hch]; by_cases hz : b.length = 0
        · simp [hz, List.length_eq_zero_iff.mp hz]
        · simp [hz]
      have hbwf : Bytes.WF b := by rw [← hfl]; exact hwf
      obtain ⟨_, hsim⟩ := (read_sim_g cb hcb hne) σ r s cx 512 htm b b.length (some .eof) q1 s1 cx1 hrd hbwf
      rw [hfl]
      rcases hsim with ⟨_, a2, r', a3, _, _⟩ | ⟨a1, m', r', a3, _, _⟩
      · rw [a3]
        simp only [hpad]
        refine ⟨fun _ => ⟨r', by rw [hch]; split <;> simp⟩, fun hna => absurd (a2 rfl) hna⟩
      · rw [a3]
        simp only
        refine ⟨fun hacc => ?_, fun _ => trivial⟩
        rcases a1 with a1 | ⟨_, a1⟩
        · rw [a1] at hacc; cases hacc
        · exact absurd hacc a1
    | none =>
      simp only at h
      -- the non-checking loop goes on from (q1, s1, cx1) with this chunk recorded
      rw [pull_acc] at h
      rcases hP : Rd.pull true 512 (some cb) n q1 s1 cx1 [] with ⟨pc, pe, pq, ps, pcx⟩
      rw [hP] at h
      simp only [Prod.mk.injEq] at h
      obtain ⟨hch, rfl, rfl, rfl, rfl⟩ := h
      have hfl : chunks.flatten = b ++ pc.flatten := by
        rw [← hch]; by_cases hz : b.length = 0
        · simp [hz, List.length_eq_zero_iff.mp hz]
        · simp [hz]
      have hbwf : Bytes.WF b := by rw [hfl] at hwf; exact wf_left hwf
      have hpwf : Bytes.WF pc.flatten := by rw [hfl] at hwf; exact wf_right hwf
      obtain ⟨_, hsim⟩ := (read_sim_g cb hcb hne) σ r s cx 512 htm b b.length none q1 s1 cx1 hrd hbwf
      rw [hfl, u8Run_append]
      rcases hsim with ⟨_, _, r', a3, a4, a5⟩ | ⟨a1, m', r', a3, _, _⟩
      · have htm' := a5 rfl
        rw [a3]
        simp only [hpad]
        rw [← a4] at hP
        obtain ⟨i1, i2⟩ := ih (u8Run σ b) r' s1 cx1 pc pq ps pcx htm' hP hpwf
        rw [pull_acc]
        refine ⟨fun hacc => ?_, fun hna => ?_⟩
        · obtain ⟨r'', hr''⟩ := i1 hacc
          exact ⟨r'', by rw [hr'', ← hch]⟩
        · have := i2 hna
          simpa using this
      · rw [a3]
        simp only
        refine ⟨fun hacc => ?_, fun _ => trivial⟩
        rcases a1 with a1 | ⟨a1, _⟩
        · rw [a1, u8Run_rej] at hacc; cases hacc
        · exact absurd rfl a1

end Ws.RdBin
