/- Helper lemmas for C01 (header codec). -/
import WsVerif.Spec.Header
namespace Ws
open Ws.Spec

/-! finite bit-vs-arithmetic tables, checked exhaustively by the kernel -/

theorem byte_bits_tbl :
    ((List.range 256).all fun b =>
      ((b &&& 0x80 != 0) == (b / 128 % 2 == 1)) && ((b &&& 0x70) >>> 4 == b / 16 % 8)
        && (b &&& 0x0f == b % 16) && (b &&& 0x7f == b % 128)) = true := by decide +kernel

theorem byte_bits {b : Nat} (h : b < 256) :
    (b &&& 0x80 != 0) = (b / 128 % 2 == 1) ∧ (b &&& 0x70) >>> 4 = b / 16 % 8
      ∧ b &&& 0x0f = b % 16 ∧ b &&& 0x7f = b % 128 := by
  have := (List.all_eq_true.mp byte_bits_tbl) b (List.mem_range.mpr h)
  simp only [Bool.and_eq_true, beq_iff_eq] at this
  obtain ⟨⟨⟨h1, h2⟩, h3⟩, h4⟩ := this
  exact ⟨h1, h2, h3, h4⟩

theorem b0_tbl :
    ([true, false].all fun f => (List.range 8).all fun r => (List.range 16).all fun o =>
      (((if f then 0x80 else 0) ||| ((r <<< 4) % 256)) ||| (o % 256)) == 128 * b2n f + 16 * r + o) = true := by
  decide +kernel

theorem b0_encode (f : Bool) {r o : Nat} (hr : r < 8) (ho : o < 16) :
    (((if f then bit0 else 0) ||| ((r <<< 4) % 256)) ||| (o % 256)) = 128 * b2n f + 16 * r + o := by
  have h := b0_tbl
  simp only [List.all_eq_true, List.mem_range, beq_iff_eq] at h
  have := h f (by cases f <;> simp) r hr o ho
  simpa [bit0] using this

theorem b1_tbl : ((List.range 128).all fun b => (b ||| 0x80) == 128 + b) = true := by decide +kernel

theorem b1_mask {b : Nat} (h : b < 128) : (b ||| bit0) = 128 + b := by
  have := (List.all_eq_true.mp b1_tbl) b (List.mem_range.mpr h)
  simpa [bit0] using this

/-- What the two decoders do with the second hop, related to the §5.2 decoder. -/
def FinishAgrees (b0 b1 : Nat) (rest : Bytes) (extra : Nat) : Prop :=
  match rfcDecode (b0 :: b1 :: rest) with
  | .ok h k => hdrFinish (hdrFirst b0 b1) (rest.take extra) = .ok h ∧ k = 2 + extra
  | .msb => hdrFinish (hdrFirst b0 b1) (rest.take extra) = .error .lengthMSB
  | .incomplete => False

theorem finish_decode (b0 b1 : Nat) (rest : Bytes) (h0 : b0 < 256) (h1 : b1 < 256)
    (hr : Bytes.WF rest) :
    ∃ extra, hdrExtra (hdrFirst b0 b1) = .ok extra ∧
      (rest.length < extra → rfcDecode (b0 :: b1 :: rest) = .incomplete) ∧
      (extra ≤ rest.length → FinishAgrees b0 b1 rest extra) := by
  have hf : hdrFirst b0 b1 =
      ⟨b0 / 128 % 2 == 1, b0 / 16 % 8, b0 % 16, b1 / 128 % 2 == 1, b1 % 128⟩ := by
    obtain ⟨a1, a2, a3, _⟩ := byte_bits h0
    obtain ⟨c1, _, _, c4⟩ := byte_bits h1
    simp only [hdrFirst, bit0, a1, a2, a3, c1, c4]
  have hl : b1 % 128 < 128 := Nat.mod_lt _ (by omega)
  simp only [FinishAgrees, hf]
  unfold hdrExtra hdrFinish
  generalize hm : (b1 / 128 % 2 == 1) = m
  generalize hl7 : b1 % 128 = l7 at hl
  simp only
  by_cases k1 : l7 < 126
  · have k2 : l7 ≠ 126 := by omega
    have k3 : l7 ≠ 127 := by omega
    cases m
    · refine ⟨0, by simp [k1], by simp, ?_⟩
      intro _
      simp [rfcDecode, hm, hl7, k1, k2, k3]
    · refine ⟨4, by simp [k1], ?_, ?_⟩
      · intro hlt; simp [rfcDecode, hm, hl7, k1, hlt]
      · intro hge
        match rest, hge with
        | m0 :: m1 :: m2 :: m3 :: tl, _ =>
          simp [rfcDecode, hm, hl7, k1, k2, k3, maskOf]
          rw [if_neg (by omega)]; simp
  · by_cases k2 : l7 = 126
    · subst k2
      cases m
      · refine ⟨2, by simp, ?_, ?_⟩
        · intro hlt; simp [rfcDecode, hm, hl7, hlt]
        · intro hge
          match rest, hge with
          | d1 :: d0 :: tl, _ =>
            simp [rfcDecode, hm, hl7, beVal]
            rw [if_neg (by omega)]; simp
      · refine ⟨6, by simp, ?_, ?_⟩
        · intro hlt; simp [rfcDecode, hm, hl7]; omega
        · intro hge
          match rest, hge with
          | d1 :: d0 :: m0 :: m1 :: m2 :: m3 :: tl, _ =>
            simp [rfcDecode, hm, hl7, beVal, maskOf]
            rw [if_neg (by omega)]; simp
    · have k3 : l7 = 127 := by omega
      subst k3
      cases m
      · refine ⟨8, by simp, ?_, ?_⟩
        · intro hlt; simp [rfcDecode, hm, hl7, hlt]
        · intro hge
          match rest, hge, hr with
          | t0 :: t1 :: t2 :: t3 :: t4 :: t5 :: t6 :: t7 :: tl, _, hr =>
            simp [Bytes.WF] at hr
            obtain ⟨b1', _, _, _⟩ := byte_bits hr.1
            simp [rfcDecode, hm, hl7, beVal, b1']
            rw [if_neg (by omega)]
            by_cases hmsb : t0 / 128 % 2 = 1
            · rw [if_pos (by omega)]; simp [hmsb]
            · rw [if_neg (by omega)]; simp [hmsb]
      · refine ⟨12, by simp, ?_, ?_⟩
        · intro hlt; simp [rfcDecode, hm, hl7]; omega
        · intro hge
          match rest, hge, hr with
          | t0 :: t1 :: t2 :: t3 :: t4 :: t5 :: t6 :: t7 :: m0 :: m1 :: m2 :: m3 :: tl, _, hr =>
            simp [Bytes.WF] at hr
            obtain ⟨b1', _, _, _⟩ := byte_bits hr.1
            simp [rfcDecode, hm, hl7, beVal, b1', maskOf]
            rw [if_neg (by omega)]
            by_cases hmsb : t0 / 128 % 2 = 1
            · rw [if_pos (by omega)]; simp [hmsb]
            · rw [if_neg (by omega)]; simp [hmsb]

end Ws
