/-
  bufio.Reader / readLine: bytes are conserved — whatever readLine hands out plus whatever stays
  buffered or unread is exactly what the transport holds, in order.
-/
import WsVerif.Model.Http
namespace Ws

/-- Everything still readable through a bufio.Reader: buffered bytes, then the source. -/
def Bufio.all (b : Bufio) : Bytes := b.buf ++ b.src.bytes

theorem Src.read_conserve (s : Src) (k : Nat) : s.bytes = (s.read k).1 ++ (s.read k).2.2.bytes := by
  unfold Src.read Src.bytes
  cases h : s.chunks with
  | nil => simp [h]
  | cons c cs =>
    simp only
    split
    · simp
    · simp [List.take_append_drop, ← List.append_assoc]

theorem Bufio.fill_go_all (fuel : Nat) (b : Bufio) : (Bufio.fill.go fuel b).all = b.all := by
  induction fuel generalizing b with
  | zero => simp [Bufio.fill.go, Bufio.all]
  | succ n ih =>
    unfold Bufio.fill.go
    simp only
    have hc := Src.read_conserve b.src (b.cap - b.buf.length)
    split
    · simp only [Bufio.all]; rw [hc]; simp [List.append_assoc]
    · split
      · rw [ih]; simp only [Bufio.all]; rw [hc]; simp [List.append_assoc]
      · simp only [Bufio.all]; rw [hc]; simp [List.append_assoc]

theorem Bufio.fill_all (b : Bufio) : b.fill.all = b.all := Bufio.fill_go_all 100 b

theorem idxOf?_split (l : Bytes) (c i : Nat) (h : l.idxOf? c = some i) :
    l = l.take (i + 1) ++ l.drop (i + 1) := (List.take_append_drop _ _).symm

/-- ReadSlice: the slice returned plus what remains is what there was. -/
theorem Bufio.readSlice_all (b : Bufio) (fuel : Nat) :
    b.all = (b.readSlice fuel).1 ++ (b.readSlice fuel).2.2.all := by
  induction fuel generalizing b with
  | zero => simp [Bufio.readSlice]
  | succ n ih =>
    unfold Bufio.readSlice
    split
    · simp [Bufio.all, ← List.append_assoc]
    · split
      · simp [Bufio.all]
      · split
        · simp [Bufio.all]
        · rw [← ih b.fill, Bufio.fill_all]

theorem readSlice_none_lf : ∀ (fuel : Nat) (b : Bufio) (bts : Bytes) (b' : Bufio),
    b.readSlice fuel = (bts, none, b') → ∃ pre, bts = pre ++ [10] := by
  intro fuel
  induction fuel with
  | zero => intro b bts b' h; simp [Bufio.readSlice] at h
  | succ m ihm =>
    intro b bts b' h
    unfold Bufio.readSlice at h
    split at h
    · rename_i i hi
      injection h with h1 _
      obtain ⟨hlt, h10, _⟩ := List.idxOf?_eq_some_iff.mp hi
      refine ⟨b.buf.take i, ?_⟩
      rw [← h1, List.take_succ, List.getElem?_eq_getElem hlt, h10]
      rfl
    · split at h
      · cases h
      · split at h
        · cases h
        · exact ihm _ _ _ h

/-- readLine.go: the accumulated line plus the reader's content is conserved; on success the raw
    bytes consumed are the line followed by LF or CRLF. -/
theorem readLine_go_all (fuel : Nat) (b : Bufio) (line : Bytes) :
    ((readLine.go fuel b line).2.1.isSome → line ++ b.all = (readLine.go fuel b line).1 ++ (readLine.go fuel b line).2.2.all) ∧
    ((readLine.go fuel b line).2.1 = none → ∃ eol, (eol = [10] ∨ eol = [13, 10]) ∧
        line ++ b.all = (readLine.go fuel b line).1 ++ (eol ++ (readLine.go fuel b line).2.2.all)) := by
  induction fuel generalizing b line with
  | zero => simp [readLine.go]
  | succ n ih =>
    have hc := Bufio.readSlice_all b b.fuel
    unfold readLine.go
    simp only
    split
    · rename_i bts b' heq
      rw [heq] at hc; simp only at hc
      have := ih b' (line ++ bts)
      simp only [List.append_assoc] at this
      rw [hc]
      exact this
    · rename_i bts f b' heq
      rw [heq] at hc; simp only at hc
      simp [hc, List.append_assoc]
    · rename_i bts b' heq
      rw [heq] at hc; simp only at hc
      obtain ⟨pre, hpre⟩ := readSlice_none_lf _ _ _ _ heq
      have hl : line ++ bts = (line ++ pre) ++ [10] := by rw [hpre, List.append_assoc]
      have hn : (line ++ bts).length = (line ++ pre).length + 1 := by rw [hl, List.length_append]; rfl
      rw [hc]
      split
      · rename_i hcr
        refine ⟨by simp, fun _ => ⟨[13, 10], .inr rfl, ?_⟩⟩
        obtain ⟨hgt, h13⟩ := hcr
        have hne : (line ++ pre) ≠ [] := by
          intro he; rw [he] at hn; simp only [List.length_nil] at hn; omega
        have hpos : 0 < (line ++ pre).length := List.length_pos_iff.mpr hne
        have hpp : line ++ pre = (line ++ pre).dropLast ++ [(line ++ pre).getLast hne] :=
          (List.dropLast_concat_getLast hne).symm
        have hlast : (line ++ pre).getLast hne = 13 := by
          have : (line ++ bts).getD ((line ++ bts).length - 2) 0 = (line ++ pre).getLast hne := by
            rw [hn, hl]
            have hidx : (line ++ pre).length + 1 - 2 = (line ++ pre).length - 1 := by omega
            rw [hidx, List.getD_eq_getElem?_getD, List.getElem?_append_left (by omega),
              List.getLast_eq_getElem, List.getElem?_eq_getElem (by omega)]
            rfl
          rw [← this]; exact h13
        rw [hlast] at hpp
        obtain ⟨dl, hdl⟩ : ∃ dl, line ++ pre = dl ++ [13] := ⟨_, hpp⟩
        have : (line ++ bts).take ((line ++ bts).length - 2) = dl := by
          rw [hn, hl, hdl]
          have hidx : (dl ++ [13]).length + 1 - 2 = dl.length := by simp
          rw [hidx, List.append_assoc]
          exact List.take_left' rfl
        rw [this, ← List.append_assoc line bts, hl, hdl]
        simp [List.append_assoc]
      · refine ⟨by simp, fun _ => ⟨[10], .inl rfl, ?_⟩⟩
        have : (line ++ bts).take ((line ++ bts).length - 1) = line ++ pre := by
          rw [hn, hl, Nat.add_sub_cancel]
          exact List.take_left' rfl
        rw [this, ← List.append_assoc line bts, hl]
        simp [List.append_assoc]

/-- readLine conserves bytes: on success `line ++ LF|CRLF ++ rest`, on error `partial ++ rest`. -/
theorem readLine_all (b : Bufio) :
    ((readLine b).2.1.isSome → b.all = (readLine b).1 ++ (readLine b).2.2.all) ∧
    ((readLine b).2.1 = none → ∃ eol, (eol = [10] ∨ eol = [13, 10]) ∧
        b.all = (readLine b).1 ++ (eol ++ (readLine b).2.2.all)) := by
  have := readLine_go_all (b.buf.length + b.src.bytes.length + 4) b []
  simpa [readLine] using this

end Ws
