/-
  Helper lemmas for the stream-level reader theorems (Props/C04, C05, C16): the transport measure,
  one in-frame Read, draining a control frame, reading a header off a chunked transport.
-/
import WsVerif.Model.Helper
import WsVerif.Props.C01
import WsVerif.Props.C02
namespace Ws.RdProof
open Ws Ws.Spec

/-! ### the transport: measure and basic facts -/

/-- what is left to do on a transport: bytes still to hand out plus chunks (an empty chunk is a
    `0, nil` read and costs one call). Every successful read makes it smaller. -/
def mu (s : Src) : Nat := s.bytes.length + s.chunks.length

/-- the last data never arrives together with a *failure* (together with io.EOF is allowed). -/
def Src.Tame (s : Src) : Prop := s.dataWithFin = true → s.fin = .eof

theorem src_read_mu (s : Src) (k : Nat) (hk : 0 < k) (hc : s.chunks ≠ []) :
    mu (s.read k).2.2 < mu s := by
  unfold Src.read mu Src.bytes
  cases hcs : s.chunks with
  | nil => exact absurd hcs hc
  | cons c cs =>
    simp only
    split
    · simp only [List.flatten_cons, List.length_append, List.length_cons]; omega
    · rename_i h
      simp only [List.flatten_cons, List.length_append, List.length_cons, List.length_drop]; omega

theorem src_read_fin (s : Src) (k : Nat) : (s.read k).2.2.fin = s.fin ∧ (s.read k).2.2.dataWithFin = s.dataWithFin := by
  unfold Src.read
  cases s.chunks with
  | nil => simp
  | cons c cs => simp only; split <;> simp

theorem src_read_len (s : Src) (k : Nat) : (s.read k).1.length ≤ k := by
  unfold Src.read
  cases s.chunks with
  | nil => simp
  | cons c cs =>
    simp only; split
    · assumption
    · simp only [List.length_take]; omega

/-- an error from `read` means the transport is empty afterwards, and a Tame transport only ever
    reports io.EOF together with data -/
theorem src_read_err (s : Src) (k : Nat) (e : Fin) (h : (s.read k).2.1 = some e) :
    (s.read k).2.2.bytes = [] ∧ e = s.fin := by
  unfold Src.read at *
  cases hcs : s.chunks with
  | nil => simp [hcs, Src.bytes] at h ⊢; exact h.symm
  | cons c cs =>
    simp only [hcs] at h ⊢
    split at h
    · simp only at h
      split at h
      · rename_i hh
        simp only [Bool.and_eq_true, List.isEmpty_iff] at hh
        simp only [Option.some.injEq] at h
        rename_i hle
        simp [hle, hh.1, Src.bytes, h]
      · simp at h
    · simp at h

theorem readFullAux_len (cs : List Bytes) (n : Nat) : (readFullAux cs n).2.length ≤ cs.length := by
  induction cs generalizing n with
  | nil => cases n <;> simp [readFullAux]
  | cons c cs ih =>
    cases n with
    | zero => simp [readFullAux]
    | succ n =>
      simp only [readFullAux]
      split
      · have := ih (n + 1 - c.length); simp only [List.length_cons]; omega
      · simp

theorem readFull_chunks (s : Src) (n : Nat) :
    (s.readFull n).2.chunks.length ≤ s.chunks.length ∧ (s.readFull n).2.dataWithFin = s.dataWithFin := by
  unfold Src.readFull
  simp only
  split
  · exact ⟨readFullAux_len _ _, rfl⟩
  · simp

end Ws.RdProof

namespace Ws.RdProof
open Ws Ws.Spec

theorem src_read_err_dwf (s : Src) (k : Nat) (e : Fin) (h : (s.read k).2.1 = some e) (hc : s.chunks ≠ []) :
    s.dataWithFin = true := by
  unfold Src.read at h
  cases hcs : s.chunks with
  | nil => exact absurd hcs hc
  | cons c cs =>
    simp only [hcs] at h
    split at h
    · simp only at h
      split at h
      · rename_i hh; simp only [Bool.and_eq_true] at hh; exact hh.2
      · simp at h
    · simp at h

/-- prefix bookkeeping: a piece no longer than `wire` taken off the front of `wire ++ rest` -/
theorem take_of_split {got tl wire rest : Bytes} (h : got ++ tl = wire ++ rest) (hl : got.length ≤ wire.length) :
    got = wire.take got.length ∧ tl = wire.drop got.length ++ rest := by
  have h1 : got = (wire ++ rest).take got.length := by rw [← h]; simp
  have h2 : tl = (wire ++ rest).drop got.length := by rw [← h]; simp
  rw [List.take_append_of_le_length hl] at h1
  rw [List.drop_append_of_le_length hl] at h2
  exact ⟨h1, h2⟩

/-- what the frame stack hands out for wire bytes `w` at the reader's current position -/
def plainOf (r : Rd) (w : Bytes) : Bytes := if r.masked then xorSpec w r.mask r.cpos else w

theorem plainOf_length (r : Rd) (w : Bytes) : (plainOf r w).length = w.length := by
  unfold plainOf xorSpec; split <;> simp

/-- the reader is inside a frame whose remaining wire payload is `wire`; `rest` follows it -/
structure InFrame (r : Rd) (s : Src) (wire rest : Bytes) : Prop where
  has : r.hasFrame = true
  noU : r.utf8on = false
  bytes : s.bytes = wire ++ rest
  n : r.rawN = wire.length
  wf : Bytes.WF s.bytes
  mwf : r.mask.WF
  tame : Src.Tame s

/-- the reader after taking `g` more wire bytes of the current frame -/
def adv (r : Rd) (g : Nat) : Rd :=
  { r with rawN := r.rawN - g, cpos := if r.masked then r.cpos + g else r.cpos }

/-- the error the limited reader + cipher reader report for a transport result -/
def ioErrOf (e : Option Fin) (left : Nat) : Option RErr :=
  (match e with
   | none => (none : Option RdErr)
   | some Fin.fail => some RdErr.fail
   | some Fin.eof => if left > 0 then some RdErr.ueof else some RdErr.eof).map
    fun f => match f with | RdErr.eof => RErr.eof | RdErr.ueof => RErr.ueof | RdErr.fail => RErr.fail

/-- One read of the frame stack while payload bytes are outstanding (any transport chunking, any
    caller buffer): it hands out the unmasked next `g` bytes of the frame (g may be 0 for an empty
    transport chunk), removes exactly those from the transport, never reports a clean EOF before
    the frame is complete and never an error at all while the transport has the bytes. -/
theorem frameRead_inframe (r : Rd) (s : Src) (wire rest : Bytes) (k : Nat) (h : InFrame r s wire rest)
    (hk : 0 < k) (hn : 0 < wire.length) :
    ∃ g e s1, r.frameRead s k = some (plainOf r (wire.take g), g, e, adv r g, s1)
      ∧ g ≤ wire.length ∧ s1.bytes = wire.drop g ++ rest ∧ mu s1 < mu s ∧ Src.Tame s1
      ∧ (g < wire.length → e = none) ∧ (e = none ∨ e = some .eof) := by
  have hne : s.chunks ≠ [] := by
    intro hc
    have : s.bytes = [] := by simp [Src.bytes, hc]
    rw [h.bytes] at this
    have : wire = [] := (List.append_eq_nil_iff.mp this).1
    simp [this] at hn
  have hrn : r.rawN ≠ 0 := by rw [h.n]; omega
  have hsplit := C02.src_read_split s (min k r.rawN)
  have hlen := src_read_len s (min k r.rawN)
  have hmu := src_read_mu s (min k r.rawN) (by rw [h.n]; omega) hne
  have hfin := src_read_fin s (min k r.rawN)
  have hwf := C02.src_read_wf s (min k r.rawN) h.wf
  unfold Rd.frameRead Rd.rawRead
  simp only [hrn, if_false]
  rcases hr : s.read (min k r.rawN) with ⟨got, e, s1⟩
  rw [hr] at hsplit hlen hmu hfin hwf
  simp only at hsplit hlen hmu hfin hwf ⊢
  have hgl : got.length ≤ wire.length := by rw [h.n] at hlen; omega
  rw [h.bytes] at hsplit
  obtain ⟨hgot, htl⟩ := take_of_split hsplit hgl
  have htame : Src.Tame s1 := by
    intro hd; rw [hfin.1]; exact h.tame (by rw [← hfin.2]; exact hd)
  have hgot' : got = wire.take got.length := hgot
  -- the cipher layer
  have hcipher : (if r.masked then cipher got r.mask r.cpos else some got) = some (plainOf r (wire.take got.length)) := by
    unfold plainOf
    rw [← hgot']
    cases r.masked
    · simp
    · simp [C02.cipher_eq_spec got hwf.1 r.mask h.mwf r.cpos]
  simp only [hcipher, h.noU, Bool.false_eq_true, if_false, plainOf_length, List.length_take]
  have hmin : min got.length wire.length = got.length := Nat.min_eq_left hgl
  -- the error the limited reader reports
  have herr : ∀ f, e = some f → got.length = wire.length ∧ f = .eof := by
    intro f hf
    have he : (s.read (min k r.rawN)).2.1 = some f := by rw [hr]; exact hf
    have h1 := src_read_err s (min k r.rawN) f he
    have h2 := src_read_err_dwf s (min k r.rawN) f he hne
    rw [hr] at h1; simp only at h1
    rw [htl] at h1
    have : wire.drop got.length = [] := (List.append_eq_nil_iff.mp h1.1).1
    have hl : wire.length ≤ got.length := by
      have := congrArg List.length this; simp at this; omega
    exact ⟨by omega, by rw [h1.2]; exact h.tame h2⟩
  refine ⟨got.length, ?_, s1, ?_, hgl, htl, hmu, htame, ?_, ?_⟩
  · exact ioErrOf e (r.rawN - got.length)
  · simp only [hmin, adv, ioErrOf]
    cases hm : r.masked <;> simp [hm, h.noU] <;> (first | rfl | (congr 1 <;> split <;> rfl))
  · intro hlt
    cases e with
    | none => rfl
    | some f => exact absurd (herr f rfl).1 (by omega)
  · cases e with
    | none => left; rfl
    | some f =>
      obtain ⟨h1, h2⟩ := herr f rfl
      subst h2
      right
      have : ¬ (r.rawN - got.length > 0) := by rw [h.n]; omega
      simp [ioErrOf, this]

end Ws.RdProof

namespace Ws.RdProof
open Ws Ws.Spec

theorem adv_zero_fields (r : Rd) : (adv r 0) = r := by
  unfold adv; cases r; simp

/-- the frame is exhausted (or empty): the frame stack reports io.EOF without touching the transport -/
theorem frameRead_done (r : Rd) (s : Src) (k : Nat) (h0 : r.rawN = 0) (hu : r.utf8on = false) (hm : r.mask.WF) :
    r.frameRead s k = some ([], 0, some .eof, r, s) := by
  unfold Rd.frameRead Rd.rawRead
  simp only [h0, if_true]
  have hc : cipher [] r.mask r.cpos = some [] := by
    rw [C02.cipher_eq_spec [] (by intro b hb; simp at hb) r.mask hm r.cpos]; simp [xorSpec]
  cases hmk : r.masked
  · simp [hu]
  · simp only [if_true, hc, List.length_nil, Nat.add_zero]
    simp only [hu, Bool.false_eq_true, if_false]
    cases r
    simp_all

/-- what `Read` leaves behind when the current frame ends -/
def afterFrame (r : Rd) : Option RErr × Rd :=
  if r.fragmented then (none, r.resetFragment) else (some .eof, r.reset)

/-- **One Reader.Read inside a frame** (no UTF-8 layer active, or the checker in its accept state):
    the next `g` unmasked bytes of the frame; while bytes remain no error; on the frame's last
    byte the message either continues (fragmented: no error, frame slot cleared) or ends
    (io.EOF together with the data, reader reset). -/
theorem read_inframe (r : Rd) (s : Src) (cx : Ctx) (cb : Option Callback) (wire rest : Bytes) (k : Nat)
    (h : InFrame r s wire rest) (hk : 0 < k)
    (hv : r.checkUTF8 = false ∨ r.utf8.valid = true) :
    ∃ g s1, g ≤ wire.length ∧ s1.bytes = wire.drop g ++ rest ∧ Src.Tame s1 ∧ Bytes.WF s1.bytes
      ∧ (0 < wire.length → mu s1 < mu s) ∧ (wire.length = 0 → s1 = s)
      ∧ ((g < wire.length ∧
            r.read s cx k cb = some (plainOf r (wire.take g), g, none, adv r g, s1, cx))
         ∨ (g = wire.length ∧
            r.read s cx k cb = some (plainOf r (wire.take g), g, (afterFrame (adv r g)).1, (afterFrame (adv r g)).2, s1, cx))) := by
  by_cases hz : wire.length = 0
  · -- empty frame / nothing left
    have hw : wire = [] := List.length_eq_zero_iff.mp hz
    subst hw
    have h0 : r.rawN = 0 := by rw [h.n]; rfl
    refine ⟨0, s, Nat.le_refl _, by simpa using h.bytes, h.tame, h.wf, by simp, fun _ => rfl, Or.inr ⟨rfl, ?_⟩⟩
    unfold Rd.read
    simp only [h.has, Bool.not_true, Bool.false_eq_true, if_false, frameRead_done r s k h0 h.noU h.mwf]
    simp only [adv_zero_fields, afterFrame, plainOf, List.take_nil]
    have hval : (r.checkUTF8 && !r.utf8.valid) = false := by
      rcases hv with hv | hv <;> simp [hv]
    cases hf : r.fragmented
    · simp [h0, hval, xorSpec]
    · simp [h0, xorSpec]
  · have hpos : 0 < wire.length := Nat.pos_of_ne_zero hz
    obtain ⟨g, e, s1, hfr, hg, hb, hmu, htame, hlt, he⟩ := frameRead_inframe r s wire rest k h hk hpos
    have hwf1 : Bytes.WF s1.bytes := by
      rw [hb]; intro x hx
      apply h.wf; rw [h.bytes]
      rcases List.mem_append.mp hx with hx | hx
      · exact List.mem_append.mpr (Or.inl (List.mem_of_mem_drop hx))
      · exact List.mem_append.mpr (Or.inr hx)
    refine ⟨g, s1, hg, hb, htame, hwf1, fun _ => hmu, fun h0 => absurd h0 hz, ?_⟩
    have hraw : (adv r g).rawN = wire.length - g := by simp [adv, h.n]
    have hval : ((adv r g).checkUTF8 && !(adv r g).utf8.valid) = false := by
      have : (adv r g).checkUTF8 = r.checkUTF8 ∧ (adv r g).utf8 = r.utf8 := by simp [adv]
      rw [this.1, this.2]
      rcases hv with hv | hv <;> simp [hv]
    by_cases hgl : g < wire.length
    · left
      refine ⟨hgl, ?_⟩
      have hen : e = none := hlt hgl
      subst hen
      unfold Rd.read
      simp only [h.has, Bool.not_true, Bool.false_eq_true, if_false, hfr]
      have : (adv r g).rawN ≠ 0 := by rw [hraw]; omega
      simp [this]
    · right
      have hge : g = wire.length := by omega
      refine ⟨hge, ?_⟩
      unfold Rd.read
      simp only [h.has, Bool.not_true, Bool.false_eq_true, if_false, hfr]
      have h0 : (adv r g).rawN = 0 := by rw [hraw]; omega
      rcases he with he | he
      · subst he
        simp only [afterFrame]
        cases hf : (adv r g).fragmented
        · simp [h0, hval, hf]
        · simp [h0, hf]
      · subst he
        simp only [afterFrame]
        cases hf : (adv r g).fragmented
        · simp [h0, hval, hf]
        · simp [h0, hf]

end Ws.RdProof

namespace Ws.RdProof
open Ws Ws.Spec

def rawErrOf (e : Option Fin) (left : Nat) : Option RdErr :=
  match e with
  | none => none
  | some Fin.fail => some RdErr.fail
  | some Fin.eof => if left > 0 then some RdErr.ueof else some RdErr.eof

/-- One read of the bare limited reader (what Discard and the control-frame drain use). -/
theorem rawRead_step (r : Rd) (s : Src) (wire rest : Bytes) (k : Nat)
    (hb : s.bytes = wire ++ rest) (hn : r.rawN = wire.length) (htame : Src.Tame s)
    (hk : 0 < k) (hpos : 0 < wire.length) :
    ∃ got e s1, r.rawRead s k = (got, e, { r with rawN := wire.length - got.length }, s1)
      ∧ got.length ≤ wire.length ∧ s1.bytes = wire.drop got.length ++ rest ∧ mu s1 < mu s ∧ Src.Tame s1
      ∧ (got = [] → s1.chunks.length < s.chunks.length)
      ∧ (got.length < wire.length → e = none) ∧ (e = none ∨ e = some .eof) := by
  have hne : s.chunks ≠ [] := by
    intro hc
    have : s.bytes = [] := by simp [Src.bytes, hc]
    rw [hb] at this
    have : wire = [] := (List.append_eq_nil_iff.mp this).1
    simp [this] at hpos
  have hrn : r.rawN ≠ 0 := by rw [hn]; omega
  have hsplit := C02.src_read_split s (min k r.rawN)
  have hlen := src_read_len s (min k r.rawN)
  have hmu := src_read_mu s (min k r.rawN) (by rw [hn]; omega) hne
  have hfin := src_read_fin s (min k r.rawN)
  have hchunks : (s.read (min k r.rawN)).1 = [] → (s.read (min k r.rawN)).2.2.chunks.length < s.chunks.length := by
    unfold Src.read
    cases hcs : s.chunks with
    | nil => exact absurd hcs hne
    | cons c cs =>
      simp only
      split
      · intro _; simp
      · rename_i hh; intro hg
        simp only at hg
        have hl := congrArg List.length hg
        simp only [List.length_take, List.length_nil] at hl
        have : 0 < min k r.rawN := by rw [hn]; omega
        omega
  unfold Rd.rawRead
  simp only [hrn, if_false]
  rcases hr : s.read (min k r.rawN) with ⟨got, e, s1⟩
  rw [hr] at hsplit hlen hmu hfin hchunks
  simp only at hsplit hlen hmu hfin hchunks ⊢
  have hgl : got.length ≤ wire.length := by rw [hn] at hlen; omega
  rw [hb] at hsplit
  obtain ⟨_, htl⟩ := take_of_split hsplit hgl
  have htame1 : Src.Tame s1 := by
    intro hd; rw [hfin.1]; exact htame (by rw [← hfin.2]; exact hd)
  have herr : ∀ f, e = some f → got.length = wire.length ∧ f = .eof := by
    intro f hf
    have he : (s.read (min k r.rawN)).2.1 = some f := by rw [hr]; exact hf
    have h1 := src_read_err s (min k r.rawN) f he
    have h2 := src_read_err_dwf s (min k r.rawN) f he hne
    rw [hr] at h1; simp only at h1
    rw [htl] at h1
    have : wire.drop got.length = [] := (List.append_eq_nil_iff.mp h1.1).1
    have hl : wire.length ≤ got.length := by
      have := congrArg List.length this; simp at this; omega
    exact ⟨by omega, by rw [h1.2]; exact htame h2⟩
  refine ⟨got, rawErrOf e (r.rawN - got.length), s1, ?_, hgl, htl, hmu, htame1, hchunks, ?_, ?_⟩
  · rw [hn]; rfl
  · intro hlt
    cases e with
    | none => rfl
    | some f => exact absurd (herr f rfl).1 (by omega)
  · cases e with
    | none => left; rfl
    | some f =>
      obtain ⟨h1, h2⟩ := herr f rfl
      subst h2
      right
      have : ¬ (r.rawN - got.length > 0) := by rw [hn]; omega
      simp [rawErrOf, this]

/-- **Draining a frame** (`io.Copy(ioutil.Discard, &r.raw)`): when the transport holds the whole
    payload, exactly the payload is consumed — whatever the chunking — and no error is reported. -/
theorem drainRaw_ok (fuel : Nat) (r : Rd) (s : Src) (wire rest : Bytes)
    (hb : s.bytes = wire ++ rest) (hn : r.rawN = wire.length) (htame : Src.Tame s) (hf : mu s < fuel) :
    ∃ s', r.drainRaw s fuel = (none, { r with rawN := 0 }, s') ∧ s'.bytes = rest ∧ Src.Tame s'
      ∧ mu s' ≤ mu s ∧ (0 < wire.length → mu s' < mu s) := by
  induction fuel generalizing r s wire with
  | zero => omega
  | succ fuel ih =>
    unfold Rd.drainRaw
    by_cases hz : wire.length = 0
    · have hw : wire = [] := List.length_eq_zero_iff.mp hz
      subst hw
      have h0 : r.rawN = 0 := by rw [hn]; rfl
      have : r.rawRead s 32768 = ([], some .eof, r, s) := by unfold Rd.rawRead; simp [h0]
      simp only [this]
      refine ⟨s, ?_, by simpa using hb, htame, Nat.le_refl _, by simp⟩
      cases r; simp_all
    · have hpos : 0 < wire.length := Nat.pos_of_ne_zero hz
      obtain ⟨got, e, s1, hrr, hgl, hb1, hmu, htame1, hch, hlt, he⟩ :=
        rawRead_step r s wire rest 32768 hb hn htame (by omega) hpos
      simp only [hrr]
      rcases he with he | he
      · subst he
        simp only
        have hguard : ¬ (got.isEmpty ∧ wire.length - got.length = r.rawN ∧ s1.chunks.length = s.chunks.length) := by
          intro ⟨h1, _, h3⟩
          have : got = [] := List.isEmpty_iff.mp h1
          have := hch this
          omega
        simp only [hguard, if_false]
        obtain ⟨s', h1, h2, h3, h4, _⟩ := ih { r with rawN := wire.length - got.length } s1 (wire.drop got.length) hb1
          (by simp) htame1 (by omega)
        refine ⟨s', ?_, h2, h3, by omega, fun _ => by omega⟩
        rw [h1]
      · subst he
        simp only
        have hge : got.length = wire.length := by
          by_cases h : got.length < wire.length
          · have := hlt h; simp at this
          · omega
        refine ⟨s1, ?_, ?_, htame1, by omega, fun _ => hmu⟩
        · simp [hge]
        · rw [hb1, hge]; simp

end Ws.RdProof
