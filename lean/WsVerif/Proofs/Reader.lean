/-
  Helper lemmas for the stream-level reader theorems (Props/C04, C05, C16): the transport measure,
  one in-frame Read, draining a control frame, reading a header off a chunked transport.
-/
import WsVerif.Model.Helper
import WsVerif.Props.C01
import WsVerif.Props.C02
namespace Ws.RdProof
open Ws Ws.Spec

/-! ### the transport: measure and basic facts -/

/-- what is left to do on a transport: bytes still to hand out plus chunks (an empty chunk is a
    `0, nil` read and costs one call). Every successful read makes it smaller. -/
def mu (s : Src) : Nat := s.bytes.length + s.chunks.length

/-- the last data never arrives together with a *failure* (together with io.EOF is allowed). -/
def Src.Tame (s : Src) : Prop := s.dataWithFin = true → s.fin = .eof

theorem src_read_mu (s : Src) (k : Nat) (hk : 0 < k) (hc : s.chunks ≠ []) :
    mu (s.read k).2.2 < mu s := by
  unfold Src.read mu Src.bytes
  cases hcs : s.chunks with
  | nil => exact absurd hcs hc
  | cons c cs =>
    simp only
    split
    · simp only [List.flatten_cons, List.length_append, List.length_cons]; omega
    · rename_i h
      simp only [List.flatten_cons, List.length_append, List.length_cons, List.length_drop]; omega

theorem src_read_fin (s : Src) (k : Nat) : (s.read k).2.2.fin = s.fin ∧ (s.read k).2.2.dataWithFin = s.dataWithFin := by
  unfold Src.read
  cases s.chunks with
  | nil => simp
  | cons c cs => simp only; split <;> simp

theorem src_read_len (s : Src) (k : Nat) : (s.read k).1.length ≤ k := by
  unfold Src.read
  cases s.chunks with
  | nil => simp
  | cons c cs =>
    simp only; split
    · assumption
    · simp only [List.length_take]; omega

/-- an error from `read` means the transport is empty afterwards, and a Tame transport only ever
    reports io.EOF together with data -/
theorem src_read_err (s : Src) (k : Nat) (e : Fin) (h : (s.read k).2.1 = some e) :
    (s.read k).2.2.bytes = [] ∧ e = s.fin := by
  unfold Src.read at *
  cases hcs : s.chunks with
  | nil => simp [hcs, Src.bytes] at h ⊢; exact h.symm
  | cons c cs =>
    simp only [hcs] at h ⊢
    split at h
    · simp only at h
      split at h
      · rename_i hh
        simp only [Bool.and_eq_true, List.isEmpty_iff] at hh
        simp only [Option.some.injEq] at h
        rename_i hle
        simp [hle, hh.1, Src.bytes, h]
      · simp at h
    · simp at h

theorem readFullAux_len (cs : List Bytes) (n : Nat) : (readFullAux cs n).2.length ≤ cs.length := by
  induction cs generalizing n with
  | nil => cases n <;> simp [readFullAux]
  | cons c cs ih =>
    cases n with
    | zero => simp [readFullAux]
    | succ n =>
      simp only [readFullAux]
      split
      · have := ih (n + 1 - c.length); simp only [List.length_cons]; omega
      · simp

theorem readFull_chunks (s : Src) (n : Nat) :
    (s.readFull n).2.chunks.length ≤ s.chunks.length ∧ (s.readFull n).2.dataWithFin = s.dataWithFin := by
  unfold Src.readFull
  simp only
  split
  · exact ⟨readFullAux_len _ _, rfl⟩
  · simp

end Ws.RdProof

namespace Ws.RdProof
open Ws Ws.Spec

theorem src_read_err_dwf (s : Src) (k : Nat) (e : Fin) (h : (s.read k).2.1 = some e) (hc : s.chunks ≠ []) :
    s.dataWithFin = true := by
  unfold Src.read at h
  cases hcs : s.chunks with
  | nil => exact absurd hcs hc
  | cons c cs =>
    simp only [hcs] at h
    split at h
    · simp only at h
      split at h
      · rename_i hh; simp only [Bool.and_eq_true] at hh; exact hh.2
      · simp at h
    · simp at h

/-- prefix bookkeeping: a piece no longer than `wire` taken off the front of `wire ++ rest` -/
theorem take_of_split {got tl wire rest : Bytes} (h : got ++ tl = wire ++ rest) (hl : got.length ≤ wire.length) :
    got = wire.take got.length ∧ tl = wire.drop got.length ++ rest := by
  have h1 : got = (wire ++ rest).take got.length := by rw [← h]; simp
  have h2 : tl = (wire ++ rest).drop got.length := by rw [← h]; simp
  rw [List.take_append_of_le_length hl] at h1
  rw [List.drop_append_of_le_length hl] at h2
  exact ⟨h1, h2⟩

/-- what the frame stack hands out for wire bytes `w` at the reader's current position -/
def plainOf (r : Rd) (w : Bytes) : Bytes := if r.masked then xorSpec w r.mask r.cpos else w

theorem plainOf_length (r : Rd) (w : Bytes) : (plainOf r w).length = w.length := by
  unfold plainOf xorSpec; split <;> simp

/-- the frame stack stands before `wire` (the rest of a frame's payload), `rest` follows it — whether or
    not the reader has installed the frame as its current one (a control frame handed to OnIntermediate
    is not) -/
structure InFrame0 (r : Rd) (s : Src) (wire rest : Bytes) : Prop where
  noU : r.utf8on = false
  bytes : s.bytes = wire ++ rest
  n : r.rawN = wire.length
  wf : Bytes.WF s.bytes
  mwf : r.mask.WF
  tame : Src.Tame s

/-- the reader is inside a frame whose remaining wire payload is `wire`; `rest` follows it -/
structure InFrame (r : Rd) (s : Src) (wire rest : Bytes) : Prop where
  has : r.hasFrame = true
  noU : r.utf8on = false
  bytes : s.bytes = wire ++ rest
  n : r.rawN = wire.length
  wf : Bytes.WF s.bytes
  mwf : r.mask.WF
  tame : Src.Tame s

/-- the reader after taking `g` more wire bytes of the current frame -/
def adv (r : Rd) (g : Nat) : Rd :=
  { r with rawN := r.rawN - g, cpos := if r.masked then r.cpos + g else r.cpos }

/-- the error the limited reader + cipher reader report for a transport result -/
def ioErrOf (e : Option Fin) (left : Nat) : Option RErr :=
  (match e with
   | none => (none : Option RdErr)
   | some Fin.fail => some RdErr.fail
   | some Fin.eof => if left > 0 then some RdErr.ueof else some RdErr.eof).map
    fun f => match f with | RdErr.eof => RErr.eof | RdErr.ueof => RErr.ueof | RdErr.fail => RErr.fail

/-- One read of the frame stack while payload bytes are outstanding (any transport chunking, any
    caller buffer): it hands out the unmasked next `g` bytes of the frame (g may be 0 for an empty
    transport chunk), removes exactly those from the transport, never reports a clean EOF before
    the frame is complete and never an error at all while the transport has the bytes. -/
theorem frameRead_inframe0 (r : Rd) (s : Src) (wire rest : Bytes) (k : Nat) (h : InFrame0 r s wire rest)
    (hk : 0 < k) (hn : 0 < wire.length) :
    ∃ g e s1, r.frameRead s k = some (plainOf r (wire.take g), g, e, adv r g, s1)
      ∧ g ≤ wire.length ∧ s1.bytes = wire.drop g ++ rest ∧ mu s1 < mu s ∧ Src.Tame s1
      ∧ (g < wire.length → e = none) ∧ (e = none ∨ e = some .eof) := by
  have hne : s.chunks ≠ [] := by
    intro hc
    have : s.bytes = [] := by simp [Src.bytes, hc]
    rw [h.bytes] at this
    have : wire = [] := (List.append_eq_nil_iff.mp this).1
    simp [this] at hn
  have hrn : r.rawN ≠ 0 := by rw [h.n]; omega
  have hsplit := C02.src_read_split s (min k r.rawN)
  have hlen := src_read_len s (min k r.rawN)
  have hmu := src_read_mu s (min k r.rawN) (by rw [h.n]; omega) hne
  have hfin := src_read_fin s (min k r.rawN)
  have hwf := C02.src_read_wf s (min k r.rawN) h.wf
  unfold Rd.frameRead Rd.rawRead
  simp only [hrn, if_false]
  rcases hr : s.read (min k r.rawN) with ⟨got, e, s1⟩
  rw [hr] at hsplit hlen hmu hfin hwf
  simp only at hsplit hlen hmu hfin hwf ⊢
  have hgl : got.length ≤ wire.length := by rw [h.n] at hlen; omega
  rw [h.bytes] at hsplit
  obtain ⟨hgot, htl⟩ := take_of_split hsplit hgl
  have htame : Src.Tame s1 := by
    intro hd; rw [hfin.1]; exact h.tame (by rw [← hfin.2]; exact hd)
  have hgot' : got = wire.take got.length := hgot
  -- the cipher layer
  have hcipher : (if r.masked then cipher got r.mask r.cpos else some got) = some (plainOf r (wire.take got.length)) := by
    unfold plainOf
    rw [← hgot']
    cases r.masked
    · simp
    · simp [C02.cipher_eq_spec got hwf.1 r.mask h.mwf r.cpos]
  simp only [hcipher, h.noU, Bool.false_eq_true, if_false, plainOf_length, List.length_take]
  have hmin : min got.length wire.length = got.length := Nat.min_eq_left hgl
  -- the error the limited reader reports
  have herr : ∀ f, e = some f → got.length = wire.length ∧ f = .eof := by
    intro f hf
    have he : (s.read (min k r.rawN)).2.1 = some f := by rw [hr]; exact hf
    have h1 := src_read_err s (min k r.rawN) f he
    have h2 := src_read_err_dwf s (min k r.rawN) f he hne
    rw [hr] at h1; simp only at h1
    rw [htl] at h1
    have : wire.drop got.length = [] := (List.append_eq_nil_iff.mp h1.1).1
    have hl : wire.length ≤ got.length := by
      have := congrArg List.length this; simp at this; omega
    exact ⟨by omega, by rw [h1.2]; exact h.tame h2⟩
  refine ⟨got.length, ?_, s1, ?_, hgl, htl, hmu, htame, ?_, ?_⟩
  · exact ioErrOf e (r.rawN - got.length)
  · simp only [hmin, adv, ioErrOf]
    cases hm : r.masked <;> simp [hm, h.noU] <;> (first | rfl | (congr 1 <;> split <;> rfl))
  · intro hlt
    cases e with
    | none => rfl
    | some f => exact absurd (herr f rfl).1 (by omega)
  · cases e with
    | none => left; rfl
    | some f =>
      obtain ⟨h1, h2⟩ := herr f rfl
      subst h2
      right
      have : ¬ (r.rawN - got.length > 0) := by rw [h.n]; omega
      simp [ioErrOf, this]

end Ws.RdProof

namespace Ws.RdProof
open Ws Ws.Spec

theorem adv_zero_fields (r : Rd) : (adv r 0) = r := by
  unfold adv; cases r; simp

/-- the frame is exhausted (or empty): the frame stack reports io.EOF without touching the transport -/
theorem frameRead_inframe (r : Rd) (s : Src) (wire rest : Bytes) (k : Nat) (h : InFrame r s wire rest)
    (hk : 0 < k) (hn : 0 < wire.length) :
    ∃ g e s1, r.frameRead s k = some (plainOf r (wire.take g), g, e, adv r g, s1)
      ∧ g ≤ wire.length ∧ s1.bytes = wire.drop g ++ rest ∧ mu s1 < mu s ∧ Src.Tame s1
      ∧ (g < wire.length → e = none) ∧ (e = none ∨ e = some .eof) :=
  frameRead_inframe0 r s wire rest k ⟨h.noU, h.bytes, h.n, h.wf, h.mwf, h.tame⟩ hk hn

theorem frameRead_done (r : Rd) (s : Src) (k : Nat) (h0 : r.rawN = 0) (hu : r.utf8on = false) (hm : r.mask.WF) :
    r.frameRead s k = some ([], 0, some .eof, r, s) := by
  unfold Rd.frameRead Rd.rawRead
  simp only [h0, if_true]
  have hc : cipher [] r.mask r.cpos = some [] := by
    rw [C02.cipher_eq_spec [] (by intro b hb; simp at hb) r.mask hm r.cpos]; simp [xorSpec]
  cases hmk : r.masked
  · simp [hu]
  · simp only [if_true, hc, List.length_nil, Nat.add_zero]
    simp only [hu, Bool.false_eq_true, if_false]
    cases r
    simp_all

/-- what `Read` leaves behind when the current frame ends -/
def afterFrame (r : Rd) : Option RErr × Rd :=
  if r.fragmented then (none, r.resetFragment) else (some .eof, r.reset)

/-- **One Reader.Read inside a frame** (no UTF-8 layer active, or the checker in its accept state):
    the next `g` unmasked bytes of the frame; while bytes remain no error; on the frame's last
    byte the message either continues (fragmented: no error, frame slot cleared) or ends
    (io.EOF together with the data, reader reset). -/
theorem read_inframe (r : Rd) (s : Src) (cx : Ctx) (cb : Option Callback) (wire rest : Bytes) (k : Nat)
    (h : InFrame r s wire rest) (hk : 0 < k)
    (hv : r.checkUTF8 = false ∨ r.utf8.valid = true) :
    ∃ g s1, g ≤ wire.length ∧ s1.bytes = wire.drop g ++ rest ∧ Src.Tame s1 ∧ Bytes.WF s1.bytes
      ∧ (0 < wire.length → mu s1 < mu s) ∧ (wire.length = 0 → s1 = s)
      ∧ ((g < wire.length ∧
            r.read s cx k cb = some (plainOf r (wire.take g), g, none, adv r g, s1, cx))
         ∨ (g = wire.length ∧
            r.read s cx k cb = some (plainOf r (wire.take g), g, (afterFrame (adv r g)).1, (afterFrame (adv r g)).2, s1, cx))) := by
  by_cases hz : wire.length = 0
  · -- empty frame / nothing left
    have hw : wire = [] := List.length_eq_zero_iff.mp hz
    subst hw
    have h0 : r.rawN = 0 := by rw [h.n]; rfl
    refine ⟨0, s, Nat.le_refl _, by simpa using h.bytes, h.tame, h.wf, by simp, fun _ => rfl, Or.inr ⟨rfl, ?_⟩⟩
    unfold Rd.read
    simp only [h.has, Bool.not_true, Bool.false_eq_true, if_false, frameRead_done r s k h0 h.noU h.mwf]
    simp only [adv_zero_fields, afterFrame, plainOf, List.take_nil]
    have hval : (r.checkUTF8 && !r.utf8.valid) = false := by
      rcases hv with hv | hv <;> simp [hv]
    cases hf : r.fragmented
    · simp [h0, hval, xorSpec]
    · simp [h0, xorSpec]
  · have hpos : 0 < wire.length := Nat.pos_of_ne_zero hz
    obtain ⟨g, e, s1, hfr, hg, hb, hmu, htame, hlt, he⟩ := frameRead_inframe r s wire rest k h hk hpos
    have hwf1 : Bytes.WF s1.bytes := by
      rw [hb]; intro x hx
      apply h.wf; rw [h.bytes]
      rcases List.mem_append.mp hx with hx | hx
      · exact List.mem_append.mpr (Or.inl (List.mem_of_mem_drop hx))
      · exact List.mem_append.mpr (Or.inr hx)
    refine ⟨g, s1, hg, hb, htame, hwf1, fun _ => hmu, fun h0 => absurd h0 hz, ?_⟩
    have hraw : (adv r g).rawN = wire.length - g := by simp [adv, h.n]
    have hval : ((adv r g).checkUTF8 && !(adv r g).utf8.valid) = false := by
      have : (adv r g).checkUTF8 = r.checkUTF8 ∧ (adv r g).utf8 = r.utf8 := by simp [adv]
      rw [this.1, this.2]
      rcases hv with hv | hv <;> simp [hv]
    by_cases hgl : g < wire.length
    · left
      refine ⟨hgl, ?_⟩
      have hen : e = none := hlt hgl
      subst hen
      unfold Rd.read
      simp only [h.has, Bool.not_true, Bool.false_eq_true, if_false, hfr]
      have : (adv r g).rawN ≠ 0 := by rw [hraw]; omega
      simp [this]
    · right
      have hge : g = wire.length := by omega
      refine ⟨hge, ?_⟩
      unfold Rd.read
      simp only [h.has, Bool.not_true, Bool.false_eq_true, if_false, hfr]
      have h0 : (adv r g).rawN = 0 := by rw [hraw]; omega
      rcases he with he | he
      · subst he
        simp only [afterFrame]
        cases hf : (adv r g).fragmented
        · simp [h0, hval, hf]
        · simp [h0, hf]
      · subst he
        simp only [afterFrame]
        cases hf : (adv r g).fragmented
        · simp [h0, hval, hf]
        · simp [h0, hf]

end Ws.RdProof

namespace Ws.RdProof
open Ws Ws.Spec

def rawErrOf (e : Option Fin) (left : Nat) : Option RdErr :=
  match e with
  | none => none
  | some Fin.fail => some RdErr.fail
  | some Fin.eof => if left > 0 then some RdErr.ueof else some RdErr.eof

/-- One read of the bare limited reader (what Discard and the control-frame drain use). -/
theorem rawRead_step (r : Rd) (s : Src) (wire rest : Bytes) (k : Nat)
    (hb : s.bytes = wire ++ rest) (hn : r.rawN = wire.length) (htame : Src.Tame s)
    (hk : 0 < k) (hpos : 0 < wire.length) :
    ∃ got e s1, r.rawRead s k = (got, e, { r with rawN := wire.length - got.length }, s1)
      ∧ got.length ≤ wire.length ∧ s1.bytes = wire.drop got.length ++ rest ∧ mu s1 < mu s ∧ Src.Tame s1
      ∧ (got = [] → s1.chunks.length < s.chunks.length)
      ∧ (got.length < wire.length → e = none) ∧ (e = none ∨ e = some .eof) := by
  have hne : s.chunks ≠ [] := by
    intro hc
    have : s.bytes = [] := by simp [Src.bytes, hc]
    rw [hb] at this
    have : wire = [] := (List.append_eq_nil_iff.mp this).1
    simp [this] at hpos
  have hrn : r.rawN ≠ 0 := by rw [hn]; omega
  have hsplit := C02.src_read_split s (min k r.rawN)
  have hlen := src_read_len s (min k r.rawN)
  have hmu := src_read_mu s (min k r.rawN) (by rw [hn]; omega) hne
  have hfin := src_read_fin s (min k r.rawN)
  have hchunks : (s.read (min k r.rawN)).1 = [] → (s.read (min k r.rawN)).2.2.chunks.length < s.chunks.length := by
    unfold Src.read
    cases hcs : s.chunks with
    | nil => exact absurd hcs hne
    | cons c cs =>
      simp only
      split
      · intro _; simp
      · rename_i hh; intro hg
        simp only at hg
        have hl := congrArg List.length hg
        simp only [List.length_take, List.length_nil] at hl
        have : 0 < min k r.rawN := by rw [hn]; omega
        omega
  unfold Rd.rawRead
  simp only [hrn, if_false]
  rcases hr : s.read (min k r.rawN) with ⟨got, e, s1⟩
  rw [hr] at hsplit hlen hmu hfin hchunks
  simp only at hsplit hlen hmu hfin hchunks ⊢
  have hgl : got.length ≤ wire.length := by rw [hn] at hlen; omega
  rw [hb] at hsplit
  obtain ⟨_, htl⟩ := take_of_split hsplit hgl
  have htame1 : Src.Tame s1 := by
    intro hd; rw [hfin.1]; exact htame (by rw [← hfin.2]; exact hd)
  have herr : ∀ f, e = some f → got.length = wire.length ∧ f = .eof := by
    intro f hf
    have he : (s.read (min k r.rawN)).2.1 = some f := by rw [hr]; exact hf
    have h1 := src_read_err s (min k r.rawN) f he
    have h2 := src_read_err_dwf s (min k r.rawN) f he hne
    rw [hr] at h1; simp only at h1
    rw [htl] at h1
    have : wire.drop got.length = [] := (List.append_eq_nil_iff.mp h1.1).1
    have hl : wire.length ≤ got.length := by
      have := congrArg List.length this; simp at this; omega
    exact ⟨by omega, by rw [h1.2]; exact htame h2⟩
  refine ⟨got, rawErrOf e (r.rawN - got.length), s1, ?_, hgl, htl, hmu, htame1, hchunks, ?_, ?_⟩
  · rw [hn]; rfl
  · intro hlt
    cases e with
    | none => rfl
    | some f => exact absurd (herr f rfl).1 (by omega)
  · cases e with
    | none => left; rfl
    | some f =>
      obtain ⟨h1, h2⟩ := herr f rfl
      subst h2
      right
      have : ¬ (r.rawN - got.length > 0) := by rw [hn]; omega
      simp [rawErrOf, this]

/-- **Draining a frame** (`io.Copy(ioutil.Discard, &r.raw)`): when the transport holds the whole
    payload, exactly the payload is consumed — whatever the chunking — and no error is reported. -/
theorem drainRaw_ok (fuel : Nat) (r : Rd) (s : Src) (wire rest : Bytes)
    (hb : s.bytes = wire ++ rest) (hn : r.rawN = wire.length) (htame : Src.Tame s) (hf : mu s < fuel) :
    ∃ s', r.drainRaw s fuel = (none, { r with rawN := 0 }, s') ∧ s'.bytes = rest ∧ Src.Tame s'
      ∧ mu s' ≤ mu s ∧ (0 < wire.length → mu s' < mu s) := by
  induction fuel generalizing r s wire with
  | zero => omega
  | succ fuel ih =>
    unfold Rd.drainRaw
    by_cases hz : wire.length = 0
    · have hw : wire = [] := List.length_eq_zero_iff.mp hz
      subst hw
      have h0 : r.rawN = 0 := by rw [hn]; rfl
      have : r.rawRead s 32768 = ([], some .eof, r, s) := by unfold Rd.rawRead; simp [h0]
      simp only [this]
      refine ⟨s, ?_, by simpa using hb, htame, Nat.le_refl _, by simp⟩
      cases r; simp_all
    · have hpos : 0 < wire.length := Nat.pos_of_ne_zero hz
      obtain ⟨got, e, s1, hrr, hgl, hb1, hmu, htame1, hch, hlt, he⟩ :=
        rawRead_step r s wire rest 32768 hb hn htame (by omega) hpos
      simp only [hrr]
      rcases he with he | he
      · subst he
        simp only
        have hguard : ¬ (got.isEmpty ∧ wire.length - got.length = r.rawN ∧ s1.chunks.length = s.chunks.length) := by
          intro ⟨h1, _, h3⟩
          have : got = [] := List.isEmpty_iff.mp h1
          have := hch this
          omega
        simp only [hguard, if_false]
        obtain ⟨s', h1, h2, h3, h4, _⟩ := ih { r with rawN := wire.length - got.length } s1 (wire.drop got.length) hb1
          (by simp) htame1 (by omega)
        refine ⟨s', ?_, h2, h3, by omega, fun _ => by omega⟩
        rw [h1]
      · subst he
        simp only
        have hge : got.length = wire.length := by
          by_cases h : got.length < wire.length
          · have := hlt h; simp at this
          · omega
        refine ⟨s1, ?_, ?_, htame1, by omega, fun _ => hmu⟩
        · simp [hge]
        · rw [hb1, hge]; simp

end Ws.RdProof

namespace Ws.RdProof
open Ws Ws.Spec

theorem readHeaderUtil_src (s : Src) :
    (readHeaderUtil s).2.chunks.length ≤ s.chunks.length ∧ (readHeaderUtil s).2.dataWithFin = s.dataWithFin := by
  have h1 := readFull_chunks s 2
  unfold readHeaderUtil
  rcases hr : s.readFull 2 with ⟨res, s1⟩
  rw [hr] at h1
  simp only at h1
  cases res with
  | error e => simpa using h1
  | ok bs =>
    match bs with
    | [] => simpa using h1
    | [_] => simpa using h1
    | _ :: _ :: _ :: _ => simpa using h1
    | [b0, b1] =>
      simp only
      cases hx : hdrExtraU (hdrFirstU b0 b1) with
      | error e => simpa using h1
      | ok extra =>
        simp only
        by_cases h0 : extra = 0
        · simpa [h0] using h1
        · simp only [h0, if_false]
          have h2 := readFull_chunks s1 extra
          rcases hr2 : s1.readFull extra with ⟨res2, s2⟩
          rw [hr2] at h2
          simp only at h2
          cases res2 with
          | error e => simp only; exact ⟨by omega, by rw [h2.2, h1.2]⟩
          | ok bts => simp only; exact ⟨by omega, by rw [h2.2, h1.2]⟩

theorem rfcSize_ge2 (h : Header) : 2 ≤ rfcSize h := by
  unfold rfcSize; split <;> split <;> omega

/-- Reading a header off any chunking of the transport: the header, not one byte more, and the
    transport strictly smaller. -/
theorem readHeader_ok (h : Header) (hw : h.WF) (tail : Bytes) (htw : Bytes.WF tail) (s : Src)
    (hs : s.bytes = rfcEncode h ++ tail) (htame : Src.Tame s) :
    ∃ s1, readHeaderUtil s = (.ok h, s1) ∧ s1.bytes = tail ∧ Src.Tame s1 ∧ mu s1 < mu s := by
  obtain ⟨h1, h2, h3⟩ := C01.read_write h hw tail htw s hs
  have hsrc := readHeaderUtil_src s
  rw [C01.readers_agree] at hsrc
  refine ⟨(readHeaderWs s).2, ?_, h2, ?_, ?_⟩
  · rw [C01.readers_agree]; exact Prod.ext h1 rfl
  · intro hd; rw [h3]; exact htame (by rw [← hsrc.2]; exact hd)
  · unfold mu
    rw [h2, hs, List.length_append, C01.rfc_len]
    have := rfcSize_ge2 h
    omega

end Ws.RdProof

namespace Ws.RdProof
open Ws Ws.Spec

/-! ### frames on the wire and NextFrame -/

structure WFrame where
  h : Header
  wire : Bytes

def WFrame.enc (f : WFrame) : Bytes := rfcEncode f.h ++ f.wire
def encodeFs (fs : List WFrame) : Bytes := (fs.map WFrame.enc).flatten
def WFrame.plain (f : WFrame) : Bytes := if f.h.masked then xorSpec f.wire f.h.mask 0 else f.wire

structure WFrame.OK (f : WFrame) : Prop where
  hwf : f.h.WF
  len : f.wire.length = f.h.len
  wwf : Bytes.WF f.wire
  mwf : f.h.mask.WF

theorem encodeFs_wf (fs : List WFrame) (h : ∀ f ∈ fs, f.OK) : Bytes.WF (encodeFs fs) := by
  induction fs with
  | nil => intro b hb; simp [encodeFs] at hb
  | cons f fs ih =>
    intro b hb
    simp only [encodeFs, List.map_cons, List.flatten_cons, WFrame.enc, List.mem_append] at hb
    rcases hb with (hb | hb) | hb
    · exact C01.rfcEncode_wf f.h (h f (by simp)).hwf b hb
    · exact (h f (by simp)).wwf b hb
    · exact ih (fun g hg => h g (by simp [hg])) b hb

/-- the reader accepts this header in its current state -/
def Accepts (r : Rd) (h : Header) : Prop :=
  (if r.skipCheck then none else checkHeader h r.state) = none ∧ ¬ (r.maxFrame > 0 ∧ h.len > r.maxFrame)

/-- the reader after NextFrame installed a data frame -/
def enter (r : Rd) (h : Header) : Rd :=
  { r with rawN := h.len, masked := h.masked, mask := h.mask, cpos := 0, hasFrame := true,
           utf8on := r.checkUTF8 && (h.op == opText || (r.fragmented && r.opCode == opText)),
           opCode := if r.fragmented then r.opCode else h.op,
           state := if h.fin then stClear r.state stFragmented else stSet r.state stFragmented }

theorem nextFrame_data (r : Rd) (s s1 : Src) (cx : Ctx) (cb : Option Callback) (h : Header)
    (hh : readHeaderUtil s = (.ok h, s1)) (ha : Accepts r h) (hext : r.ext = false)
    (hdata : opIsControl h.op = false) :
    r.nextFrame s cx cb = (some h, none, enter r h, s1, cx) := by
  unfold Rd.nextFrame
  simp only [hh, ha.1, ha.2, if_false, hext, Bool.false_eq_true]
  simp only [Rd.fragmented, hdata, Bool.and_false, Bool.false_eq_true, if_false, enter]
  by_cases hf : stIs r.state stFragmented = true
  · simp [hf, hext]
  · simp [hf, hext]

/-- the reader after an intermediate control frame was skipped (no OnIntermediate) -/
def skipCtl (r : Rd) (h : Header) : Rd :=
  { r with rawN := 0, masked := h.masked, mask := h.mask, cpos := 0, utf8on := false }

theorem nextFrame_ctl (r : Rd) (s s1 : Src) (cx : Ctx) (f : WFrame) (tail : Bytes)
    (hh : readHeaderUtil s = (.ok f.h, s1)) (ha : Accepts r f.h) (hext : r.ext = false)
    (hctl : opIsControl f.h.op = true) (hfrag : r.fragmented = true)
    (hb : s1.bytes = f.wire ++ tail) (hlen : f.wire.length = f.h.len) (htame : Src.Tame s1) :
    ∃ s3, r.nextFrame s cx none = (some f.h, none, skipCtl r f.h, s3, cx) ∧ s3.bytes = tail ∧ Src.Tame s3
      ∧ mu s3 ≤ mu s1 := by
  unfold Rd.nextFrame
  simp only [hh, ha.1, ha.2, if_false, hext, Bool.false_eq_true]
  have hfr : ({ r with ext := false, rawN := f.h.len, masked := f.h.masked, mask := f.h.mask, cpos := 0, utf8on := false } : Rd).fragmented = true := by
    simpa [Rd.fragmented] using hfrag
  simp only [hfr, hctl, Bool.and_self, if_true]
  obtain ⟨s3, h1, h2, h3, h4, _⟩ := drainRaw_ok s1.fuel
    ({ r with ext := false, rawN := f.h.len, masked := f.h.masked, mask := f.h.mask, cpos := 0, utf8on := false } : Rd)
    s1 f.wire tail hb (by simp [hlen]) htame
    (by unfold Src.fuel mu; omega)
  refine ⟨s3, ?_, h2, h3, h4⟩
  rw [h1]
  simp [skipCtl, hext]

end Ws.RdProof

namespace Ws.RdProof
open Ws Ws.Spec

/-! ### a whole message: invariant and one-Read step -/

def AcceptsAt (skip : Bool) (st maxF : Nat) (h : Header) : Prop :=
  (if skip then none else checkHeader h st) = none ∧ ¬ (maxF > 0 ∧ h.len > maxF)

/-- the frames that may follow the first fragment of an open message: control frames anywhere,
    non-final fragments, and a final fragment last — each accepted in the fragmented state `st`. -/
inductive Tail (ao skip : Bool) (st maxF : Nat) : List WFrame → Prop
  /-- the known prefix of the message ends here with the message still open (what follows on the
      transport is arbitrary: the next fragment, an offending frame, a cut, …) -/
  | opn : ao = true → Tail ao skip st maxF []
  | last (f : WFrame) : f.OK → opIsControl f.h.op = false → f.h.fin = true → AcceptsAt skip st maxF f.h →
      Tail ao skip st maxF [f]
  | cont (f : WFrame) (fs : List WFrame) : f.OK → opIsControl f.h.op = false → f.h.fin = false →
      AcceptsAt skip st maxF f.h → Tail ao skip st maxF fs → Tail ao skip st maxF (f :: fs)
  | ctl (f : WFrame) (fs : List WFrame) : f.OK → opIsControl f.h.op = true → AcceptsAt skip st maxF f.h →
      Tail ao skip st maxF fs → Tail ao skip st maxF (f :: fs)

/-- the frame list really ends with a final fragment (no open end) -/
def closed : List WFrame → Bool
  | [] => false
  | [f] => !opIsControl f.h.op && f.h.fin
  | _ :: fs => closed fs

/-- concatenation of the unmasked payloads of the data frames -/
def dataPlain : List WFrame → Bytes
  | [] => []
  | f :: fs => (if opIsControl f.h.op then [] else f.plain) ++ dataPlain fs

theorem Tail.allOK {ao skip st maxF fs} (h : Tail ao skip st maxF fs) : ∀ f ∈ fs, f.OK := by
  induction h with
  | opn _ => intro g hg; simp at hg
  | last f hok => intro g hg; simp at hg; subst hg; exact hok
  | cont f fs hok _ _ _ _ ih => intro g hg; simp at hg; rcases hg with rfl | hg; exact hok; exact ih g hg
  | ctl f fs hok _ _ _ ih => intro g hg; simp at hg; rcases hg with rfl | hg; exact hok; exact ih g hg

structure Common (skip : Bool) (st maxF : Nat) (r : Rd) (s : Src) : Prop where
  ext : r.ext = false
  u8 : r.checkUTF8 = false
  skip : r.skipCheck = skip
  maxF : r.maxFrame = maxF
  tame : Src.Tame s
  wf : Bytes.WF s.bytes
  stF : stIs st stFragmented = true
  stSet : stSet st stFragmented = st
  stClr : stIs (stClear st stFragmented) stFragmented = false

/-- where the reader stands inside a message whose remaining expected output is the last index -/
inductive Sync (ao skip : Bool) (st maxF : Nat) (rest : Bytes) : Rd → Src → Bytes → List WFrame → Prop
  | mid (r : Rd) (s : Src) (wire : Bytes) (fs : List WFrame) : Common skip st maxF r s →
      InFrame r s wire (encodeFs fs ++ rest) → r.state = st → Tail ao skip st maxF fs →
      Sync ao skip st maxF rest r s (plainOf r wire ++ dataPlain fs) fs
  | lastFrame (r : Rd) (s : Src) (wire : Bytes) : Common skip st maxF r s →
      InFrame r s wire rest → r.state = stClear st stFragmented →
      Sync ao skip st maxF rest r s (plainOf r wire) []
  | between (r : Rd) (s : Src) (fs : List WFrame) : Common skip st maxF r s →
      r.hasFrame = false → r.state = st → s.bytes = encodeFs fs ++ rest → Tail ao skip st maxF fs →
      Sync ao skip st maxF rest r s (dataPlain fs) fs

def weight (r : Rd) (s : Src) : Nat := mu s + (if r.hasFrame then 1 else 0)

/-- the reader after the message: ready for the next NextFrame like a new reader -/
structure Done (st : Nat) (r0 r : Rd) : Prop where
  has : r.hasFrame = false
  state : r.state = stClear st stFragmented
  op : r.opCode = 0
  u8 : r.utf8 = {}
  raw : r.rawN = 0
  u8on : r.utf8on = false
  cfg : r.skipCheck = r0.skipCheck ∧ r.checkUTF8 = r0.checkUTF8 ∧ r.ext = r0.ext ∧ r.maxFrame = r0.maxFrame

theorem plainOf_split (r : Rd) (wire : Bytes) (g : Nat) (hg : g ≤ wire.length) :
    plainOf r (wire.take g) ++ plainOf (adv r g) (wire.drop g) = plainOf r wire := by
  unfold plainOf adv
  cases hm : r.masked
  · simp
  · simp only [if_true]
    have := C02.xor_append (wire.take g) (wire.drop g) r.mask r.cpos
    rw [List.take_append_drop] at this
    rw [this, List.length_take, Nat.min_eq_left hg]

theorem plainOf_take_all (r : Rd) (wire : Bytes) : plainOf r (wire.take wire.length) = plainOf r wire := by
  rw [List.take_length]

end Ws.RdProof

namespace Ws.RdProof
open Ws Ws.Spec

theorem adv_fields (r : Rd) (g : Nat) :
    (adv r g).hasFrame = r.hasFrame ∧ (adv r g).utf8on = r.utf8on ∧ (adv r g).mask = r.mask
    ∧ (adv r g).state = r.state ∧ (adv r g).ext = r.ext ∧ (adv r g).checkUTF8 = r.checkUTF8
    ∧ (adv r g).skipCheck = r.skipCheck ∧ (adv r g).maxFrame = r.maxFrame ∧ (adv r g).masked = r.masked
    ∧ (adv r g).compressed = r.compressed := by
  simp [adv]

theorem common_of (skip st maxF) {r : Rd} {s : Src} (c : Common skip st maxF r s) (r' : Rd) (s' : Src)
    (h1 : r'.ext = r.ext) (h2 : r'.checkUTF8 = r.checkUTF8) (h3 : r'.skipCheck = r.skipCheck)
    (h4 : r'.maxFrame = r.maxFrame) (ht : Src.Tame s') (hw : Bytes.WF s'.bytes) : Common skip st maxF r' s' :=
  ⟨by rw [h1, c.ext], by rw [h2, c.u8], by rw [h3, c.skip], by rw [h4, c.maxF], ht, hw, c.stF, c.stSet, c.stClr⟩

/-- **One Read from inside a frame of an open or closing message.** -/
theorem step_inframe (ao skip : Bool) (st maxF : Nat) (rest : Bytes) (r : Rd) (s : Src) (cx : Ctx) (cb : Option Callback)
    (k : Nat) (hk : 0 < k) (rem : Bytes) (fs : List WFrame)
    (hs : (∃ wire, Common skip st maxF r s ∧ InFrame r s wire (encodeFs fs ++ rest) ∧ r.state = st
              ∧ Tail ao skip st maxF fs ∧ rem = plainOf r wire ++ dataPlain fs)
          ∨ (fs = [] ∧ ∃ wire, Common skip st maxF r s ∧ InFrame r s wire rest ∧ r.state = stClear st stFragmented
              ∧ rem = plainOf r wire)) :
    ∃ bytes e r' s', r.read s cx k cb = some (bytes, bytes.length, e, r', s', cx) ∧ mu s' ≤ mu s ∧
      ((e = none ∧ ∃ rem', rem = bytes ++ rem' ∧ Sync ao skip st maxF rest r' s' rem' fs ∧ weight r' s' < weight r s)
       ∨ (e = some .eof ∧ rem = bytes ∧ s'.bytes = rest ∧ Src.Tame s' ∧ Done st r r' ∧ fs = [])) := by
  rcases hs with ⟨wire, hc, hin, hst, htail, hrem⟩ | ⟨hfs, wire, hc, hin, hst, hrem⟩
  · -- a non-final fragment
    have hfrag : r.fragmented = true := by simp [Rd.fragmented, hst, hc.stF]
    obtain ⟨g, s1, hg, hb, htame, hwf1, hmu, hsame, hread⟩ :=
      read_inframe r s cx cb wire (encodeFs fs ++ rest) k hin hk (Or.inl hc.u8)
    have hmule : mu s1 ≤ mu s := by
      by_cases hz : wire.length = 0
      · rw [hsame hz]; exact Nat.le_refl _
      · exact Nat.le_of_lt (hmu (Nat.pos_of_ne_zero hz))
    have hlen : (plainOf r (wire.take g)).length = g := by
      rw [plainOf_length, List.length_take, Nat.min_eq_left hg]
    obtain ⟨a1, a2, a3, a4, a5, a6, a7, a8, a9, a10⟩ := adv_fields r g
    rcases hread with ⟨hlt, hrd⟩ | ⟨heq, hrd⟩
    · refine ⟨_, none, adv r g, s1, by rw [hlen]; exact hrd, hmule, Or.inl ⟨rfl, plainOf (adv r g) (wire.drop g) ++ dataPlain fs, ?_, ?_, ?_⟩⟩
      · rw [hrem, ← List.append_assoc, plainOf_split r wire g hg]
      · refine Sync.mid (adv r g) s1 (wire.drop g) fs (common_of skip st maxF hc _ _ a5 a6 a7 a8 htame hwf1) ?_ (by rw [a4, hst]) htail
        exact ⟨by rw [a1, hin.has], by rw [a2, hin.noU], hb, by simp [adv, hin.n], hwf1, by rw [a3]; exact hin.mwf, htame⟩
      · unfold weight
        rw [a1, hin.has]
        have := hmu (by omega)
        simp only [if_true]; omega
    · -- the fragment ends: the frame slot is cleared, the message stays open
      have hfr2 : (adv r g).fragmented = true := by simp [Rd.fragmented, a4, hst, hc.stF]
      simp only [afterFrame, hfr2, if_true] at hrd
      refine ⟨_, none, (adv r g).resetFragment, s1, by rw [hlen]; exact hrd, hmule, Or.inl ⟨rfl, dataPlain fs, ?_, ?_, ?_⟩⟩
      · rw [hrem, heq, plainOf_take_all]
      · refine Sync.between _ s1 fs ?_ (by simp [Rd.resetFragment]) (by simp [Rd.resetFragment, a4, hst]) ?_ htail
        · exact common_of skip st maxF hc _ _ (by simp [Rd.resetFragment, a5]) (by simp [Rd.resetFragment, a6])
            (by simp [Rd.resetFragment, a7]) (by simp [Rd.resetFragment, a8]) htame hwf1
        · rw [hb, heq]; simp
      · unfold weight
        simp only [Rd.resetFragment, hin.has, if_true, Bool.false_eq_true, if_false]
        omega
  · -- the final fragment
    subst hfs
    have hfrag : r.fragmented = false := by simp [Rd.fragmented, hst, hc.stClr]
    obtain ⟨g, s1, hg, hb, htame, hwf1, hmu, hsame, hread⟩ :=
      read_inframe r s cx cb wire rest k hin hk (Or.inl hc.u8)
    have hmule : mu s1 ≤ mu s := by
      by_cases hz : wire.length = 0
      · rw [hsame hz]; exact Nat.le_refl _
      · exact Nat.le_of_lt (hmu (Nat.pos_of_ne_zero hz))
    have hlen : (plainOf r (wire.take g)).length = g := by
      rw [plainOf_length, List.length_take, Nat.min_eq_left hg]
    obtain ⟨a1, a2, a3, a4, a5, a6, a7, a8, a9, a10⟩ := adv_fields r g
    rcases hread with ⟨hlt, hrd⟩ | ⟨heq, hrd⟩
    · refine ⟨_, none, adv r g, s1, by rw [hlen]; exact hrd, hmule, Or.inl ⟨rfl, plainOf (adv r g) (wire.drop g), ?_, ?_, ?_⟩⟩
      · rw [hrem, plainOf_split r wire g hg]
      · refine Sync.lastFrame (adv r g) s1 (wire.drop g) (common_of skip st maxF hc _ _ a5 a6 a7 a8 htame hwf1) ?_ (by rw [a4, hst])
        exact ⟨by rw [a1, hin.has], by rw [a2, hin.noU], hb, by simp [adv, hin.n], hwf1, by rw [a3]; exact hin.mwf, htame⟩
      · unfold weight
        rw [a1, hin.has]
        have := hmu (by omega)
        simp only [if_true]; omega
    · have hfr2 : (adv r g).fragmented = false := by simp [Rd.fragmented, a4, hst, hc.stClr]
      simp only [afterFrame, hfr2, Bool.false_eq_true, if_false] at hrd
      refine ⟨_, some .eof, (adv r g).reset, s1, by rw [hlen]; exact hrd, hmule, Or.inr ⟨rfl, ?_, ?_, htame, ?_, rfl⟩⟩
      · rw [hrem, heq, plainOf_take_all]
      · rw [hb, heq]; simp
      · exact ⟨by simp [Rd.reset], by simp [Rd.reset, a4, hst], by simp [Rd.reset], by simp [Rd.reset],
          by simp [Rd.reset], by simp [Rd.reset], by simp [Rd.reset, a7, a6, a5, a8]⟩

end Ws.RdProof

namespace Ws.RdProof
open Ws Ws.Spec

/-- a Read that first has to fetch the next fragment behaves like a Read on the reader that
    NextFrame leaves -/
theorem read_enter (r r5 : Rd) (s s1 : Src) (cx cx1 : Ctx) (cb : Option Callback) (k : Nat) (h : Option Header)
    (hh : r.hasFrame = false) (hf : r.fragmented = true)
    (hn : r.nextFrame s cx cb = (h, none, r5, s1, cx1)) (h5 : r5.hasFrame = true) :
    r.read s cx k cb = r5.read s1 cx1 k cb := by
  unfold Rd.read
  simp [hh, hf, hn, h5]

theorem read_skip (r r3 : Rd) (s s3 : Src) (cx cx1 : Ctx) (cb : Option Callback) (k : Nat) (h : Option Header)
    (hh : r.hasFrame = false) (hf : r.fragmented = true)
    (hn : r.nextFrame s cx cb = (h, none, r3, s3, cx1)) (h3 : r3.hasFrame = false) :
    r.read s cx k cb = some ([], 0, none, r3, s3, cx1) := by
  unfold Rd.read
  simp [hh, hf, hn, h3]

theorem wf_append_right {a b : Bytes} (h : Bytes.WF (a ++ b)) : Bytes.WF b :=
  fun x hx => h x (List.mem_append.mpr (Or.inr hx))
theorem wf_append_left {a b : Bytes} (h : Bytes.WF (a ++ b)) : Bytes.WF a :=
  fun x hx => h x (List.mem_append.mpr (Or.inl hx))

/-- the reader has consumed the whole known prefix of a still-open message: it stands between two
    frames, everything known has been delivered, and the transport holds exactly `rest` -/
structure AtEnd (ao skip : Bool) (st maxF : Nat) (rest : Bytes) (r : Rd) (s : Src) (rem : Bytes) : Prop where
  opn : ao = true
  common : Common skip st maxF r s
  has : r.hasFrame = false
  state : r.state = st
  bytes : s.bytes = rest
  rem : rem = []

/-- **One Reader.Read anywhere inside a message** (OnIntermediate unset): it returns the next
    piece of the expected output — possibly empty, e.g. when it only skipped an interleaved control
    frame or an empty transport chunk — with no error, re-establishing the invariant on a strictly
    smaller transport; or it returns the last piece together with io.EOF, the transport standing
    exactly behind the message and the reader reset. No other outcome exists. -/
theorem step (ao skip : Bool) (st maxF : Nat) (rest : Bytes) (r : Rd) (s : Src) (cx : Ctx) (k : Nat) (hk : 0 < k)
    (rem : Bytes) (fs0 : List WFrame) (hs : Sync ao skip st maxF rest r s rem fs0) :
    (∃ bytes e r' s', r.read s cx k none = some (bytes, bytes.length, e, r', s', cx) ∧
      ((e = none ∧ ∃ rem' fs', rem = bytes ++ rem' ∧ Sync ao skip st maxF rest r' s' rem' fs' ∧ weight r' s' < weight r s)
       ∨ (e = some .eof ∧ rem = bytes ∧ s'.bytes = rest ∧ Src.Tame s' ∧ Done st r r')))
    ∨ AtEnd ao skip st maxF rest r s rem := by
  cases hs with
  | mid wire _ hc hin hst htail =>
    obtain ⟨b, e, r', s', h1, _, h2⟩ := step_inframe ao skip st maxF rest r s cx none k hk _ fs0
      (Or.inl ⟨wire, hc, hin, hst, htail, rfl⟩)
    refine Or.inl ⟨b, e, r', s', h1, ?_⟩
    rcases h2 with ⟨he, rem', g1, g2, g3⟩ | ⟨he, g1, g2, g3, g4, _⟩
    · exact Or.inl ⟨he, rem', fs0, g1, g2, g3⟩
    · exact Or.inr ⟨he, g1, g2, g3, g4⟩
  | lastFrame wire hc hin hst =>
    obtain ⟨b, e, r', s', h1, _, h2⟩ := step_inframe ao skip st maxF rest r s cx none k hk _ []
      (Or.inr ⟨rfl, wire, hc, hin, hst, rfl⟩)
    refine Or.inl ⟨b, e, r', s', h1, ?_⟩
    rcases h2 with ⟨he, rem', g1, g2, g3⟩ | ⟨he, g1, g2, g3, g4, _⟩
    · exact Or.inl ⟨he, rem', [], g1, g2, g3⟩
    · exact Or.inr ⟨he, g1, g2, g3, g4⟩
  | between _ hc hhas hst hb htail =>
    have hfrag : r.fragmented = true := by simp [Rd.fragmented, hst, hc.stF]
    have hw0 : weight r s = mu s := by simp [weight, hhas]
    cases htail with
    | opn hao => exact Or.inr ⟨hao, hc, hhas, hst, by simpa [encodeFs] using hb, rfl⟩
    | ctl f fs' hok hctl hacc ht' =>
      have hbytes : s.bytes = rfcEncode f.h ++ (f.wire ++ (encodeFs fs' ++ rest)) := by
        rw [hb]; simp [encodeFs, WFrame.enc, List.append_assoc]
      have hwt : Bytes.WF (f.wire ++ (encodeFs fs' ++ rest)) := by
        have := hc.wf; rw [hbytes] at this; exact wf_append_right this
      obtain ⟨s1, hrh, hb1, ht1, hmu1⟩ := readHeader_ok f.h hok.hwf _ hwt s hbytes hc.tame
      have hacc' : Accepts r f.h := by
        unfold Accepts; rw [hc.skip, hst, hc.maxF]; exact hacc
      obtain ⟨s3, hnf, hb3, ht3, hmu3⟩ := nextFrame_ctl r s s1 cx f (encodeFs fs' ++ rest) hrh hacc' hc.ext hctl hfrag hb1 hok.len ht1
      have hrd := read_skip r (skipCtl r f.h) s s3 cx cx none k (some f.h) hhas hfrag hnf (by simp [skipCtl, hhas])
      refine Or.inl ⟨[], none, skipCtl r f.h, s3, by simpa using hrd, Or.inl ⟨rfl, dataPlain fs', fs', ?_, ?_, ?_⟩⟩
      · simp [dataPlain, hctl]
      · refine Sync.between _ s3 fs' ?_ (by simp [skipCtl, hhas]) (by simp [skipCtl, hst]) hb3 ht'
        exact common_of skip st maxF hc _ _ (by simp [skipCtl]) (by simp [skipCtl]) (by simp [skipCtl]) (by simp [skipCtl]) ht3
          (by rw [hb3]; exact wf_append_right hwt)
      · rw [hw0]; simp only [weight, skipCtl, hhas, Bool.false_eq_true, if_false]; omega
    | cont f fs' hok hdata hfin hacc ht' =>
      have hbytes : s.bytes = rfcEncode f.h ++ (f.wire ++ (encodeFs fs' ++ rest)) := by
        rw [hb]; simp [encodeFs, WFrame.enc, List.append_assoc]
      have hwt : Bytes.WF (f.wire ++ (encodeFs fs' ++ rest)) := by
        have := hc.wf; rw [hbytes] at this; exact wf_append_right this
      obtain ⟨s1, hrh, hb1, ht1, hmu1⟩ := readHeader_ok f.h hok.hwf _ hwt s hbytes hc.tame
      have hacc' : Accepts r f.h := by
        unfold Accepts; rw [hc.skip, hst, hc.maxF]; exact hacc
      have hnf := nextFrame_data r s s1 cx none f.h hrh hacc' hc.ext hdata
      have hrd := read_enter r (enter r f.h) s s1 cx cx none k (some f.h) hhas hfrag hnf (by simp [enter])
      have hc5 : Common skip st maxF (enter r f.h) s1 :=
        common_of skip st maxF hc _ _ (by simp [enter]) (by simp [enter]) (by simp [enter]) (by simp [enter]) ht1 (by rw [hb1]; exact hwt)
      have hin5 : InFrame (enter r f.h) s1 f.wire (encodeFs fs' ++ rest) :=
        ⟨by simp [enter], by simp [enter, hc.u8], hb1, by simp [enter, hok.len], by rw [hb1]; exact hwt, by simp [enter]; exact hok.mwf, ht1⟩
      have hst5 : (enter r f.h).state = st := by simp [enter, hfin, hst, hc.stSet]
      obtain ⟨b, e, r', s', h1, hmle, h2⟩ := step_inframe ao skip st maxF rest (enter r f.h) s1 cx none k hk
        (plainOf (enter r f.h) f.wire ++ dataPlain fs') fs' (Or.inl ⟨f.wire, hc5, hin5, hst5, ht', rfl⟩)
      have hpl : plainOf (enter r f.h) f.wire = f.plain := rfl
      refine Or.inl ⟨b, e, r', s', by rw [hrd]; exact h1, ?_⟩
      rcases h2 with ⟨he, rem', hr1, hr2, hr3⟩ | ⟨he, hr1, hr2, hr3, hr4, _⟩
      · refine Or.inl ⟨he, rem', fs', ?_, hr2, ?_⟩
        · simp only [dataPlain, hdata, Bool.false_eq_true, if_false]; rw [← hpl]; exact hr1
        · rw [hw0]
          have : weight r' s' < mu s1 + 1 := by simpa [weight, enter] using hr3
          omega
      · refine Or.inr ⟨he, ?_, hr2, hr3, ?_⟩
        · simp only [dataPlain, hdata, Bool.false_eq_true, if_false]; rw [← hpl]; exact hr1
        · exact ⟨hr4.has, hr4.state, hr4.op, hr4.u8, hr4.raw, hr4.u8on, by simpa [enter] using hr4.cfg⟩
    | last f hok hdata hfin hacc =>
      have hbytes : s.bytes = rfcEncode f.h ++ (f.wire ++ rest) := by
        rw [hb]; simp [encodeFs, WFrame.enc, List.append_assoc]
      have hwt : Bytes.WF (f.wire ++ rest) := by
        have := hc.wf; rw [hbytes] at this; exact wf_append_right this
      obtain ⟨s1, hrh, hb1, ht1, hmu1⟩ := readHeader_ok f.h hok.hwf _ hwt s hbytes hc.tame
      have hacc' : Accepts r f.h := by
        unfold Accepts; rw [hc.skip, hst, hc.maxF]; exact hacc
      have hnf := nextFrame_data r s s1 cx none f.h hrh hacc' hc.ext hdata
      have hrd := read_enter r (enter r f.h) s s1 cx cx none k (some f.h) hhas hfrag hnf (by simp [enter])
      have hc5 : Common skip st maxF (enter r f.h) s1 :=
        common_of skip st maxF hc _ _ (by simp [enter]) (by simp [enter]) (by simp [enter]) (by simp [enter]) ht1 (by rw [hb1]; exact hwt)
      have hin5 : InFrame (enter r f.h) s1 f.wire rest :=
        ⟨by simp [enter], by simp [enter, hc.u8], hb1, by simp [enter, hok.len], by rw [hb1]; exact hwt, by simp [enter]; exact hok.mwf, ht1⟩
      have hst5 : (enter r f.h).state = stClear st stFragmented := by simp [enter, hfin, hst]
      obtain ⟨b, e, r', s', h1, hmle, h2⟩ := step_inframe ao skip st maxF rest (enter r f.h) s1 cx none k hk
        (plainOf (enter r f.h) f.wire) [] (Or.inr ⟨rfl, f.wire, hc5, hin5, hst5, rfl⟩)
      have hpl : plainOf (enter r f.h) f.wire = f.plain := rfl
      refine Or.inl ⟨b, e, r', s', by rw [hrd]; exact h1, ?_⟩
      rcases h2 with ⟨he, rem', hr1, hr2, hr3⟩ | ⟨he, hr1, hr2, hr3, hr4, _⟩
      · refine Or.inl ⟨he, rem', [], ?_, hr2, ?_⟩
        · simp only [dataPlain, hdata, Bool.false_eq_true, if_false, List.append_nil]; rw [← hpl]; exact hr1
        · rw [hw0]
          have : weight r' s' < mu s1 + 1 := by simpa [weight, enter] using hr3
          omega
      · refine Or.inr ⟨he, ?_, hr2, hr3, ?_⟩
        · simp only [dataPlain, hdata, Bool.false_eq_true, if_false, List.append_nil]; rw [← hpl]; exact hr1
        · exact ⟨hr4.has, hr4.state, hr4.op, hr4.u8, hr4.raw, hr4.u8on, by simpa [enter] using hr4.cfg⟩

end Ws.RdProof

namespace Ws.RdProof
open Ws Ws.Spec

/-- the caller's loop: Read with buffers of sizes `ks` until the list is used up or Read reports
    an error (io.EOF = end of message); returns everything Read handed out and the last error -/
def reads : Rd → Src → Ctx → List Nat → Option (Bytes × Option RErr × Rd × Src × Ctx)
  | r, s, cx, [] => some ([], none, r, s, cx)
  | r, s, cx, k :: ks =>
    match r.read s cx k none with
    | none => none
    | some (bytes, n, e, r', s', cx') =>
      match e with
      | some e => some (bytes.take n, some e, r', s', cx')
      | none =>
        match reads r' s' cx' ks with
        | none => none
        | some (o, e2, r2, s2, cx2) => some (bytes.take n ++ o, e2, r2, s2, cx2)

/-- **Any sequence of Reads** with positive buffer sizes, from any point inside a message: either
    all of them stay inside the known frames (no error, the invariant holds again, the transport
    has shrunk by at least one unit per Read), or one of them returns the end of the message
    (io.EOF), or — when the known part of the message has an open end — after the first `ks1` of
    them everything known has been delivered without error and the reader stands at that end. -/
theorem reads_sync (ao skip : Bool) (st maxF : Nat) (rest : Bytes) (ks : List Nat) (hpos : ∀ k ∈ ks, 0 < k)
    (r : Rd) (s : Src) (cx : Ctx) (rem : Bytes) (fs0 : List WFrame) (hs : Sync ao skip st maxF rest r s rem fs0) :
    (∃ out e r' s', reads r s cx ks = some (out, e, r', s', cx) ∧
      ((e = none ∧ ∃ rem' fs', rem = out ++ rem' ∧ Sync ao skip st maxF rest r' s' rem' fs' ∧ weight r' s' + ks.length ≤ weight r s)
       ∨ (e = some .eof ∧ rem = out ∧ s'.bytes = rest ∧ Src.Tame s' ∧ Done st r r')))
    ∨ (∃ ks1 k2 ks2 out1 r1 s1, ks = ks1 ++ k2 :: ks2 ∧ reads r s cx ks1 = some (out1, none, r1, s1, cx)
        ∧ rem = out1 ∧ AtEnd ao skip st maxF rest r1 s1 []) := by
  induction ks generalizing r s rem fs0 with
  | nil => exact Or.inl ⟨[], none, r, s, rfl, Or.inl ⟨rfl, rem, fs0, by simp, hs, by simp⟩⟩
  | cons k ks ih =>
    rcases step ao skip st maxF rest r s cx k (hpos k (by simp)) rem fs0 hs with ⟨b, e, r1, s1, hrd, hcase⟩ | hend
    · rcases hcase with ⟨he, rem1, fs1, hr1, hs1, hw1⟩ | ⟨he, hr1, hb1, ht1, hd1⟩
      · subst he
        rcases ih (fun k' hk' => hpos k' (by simp [hk'])) r1 s1 rem1 fs1 hs1 with ⟨o, e2, r2, s2, hrd2, hcase2⟩ | ⟨ks1, k2, ks2, o1, r2, s2, hks, hrd2, hrem2, hend2⟩
        · left
          simp only [reads, hrd, hrd2, List.take_length]
          refine ⟨b ++ o, e2, r2, s2, rfl, ?_⟩
          rcases hcase2 with ⟨he2, rem2, fs2, hr2, hs2, hw2⟩ | ⟨he2, hr2, hb2, ht2, hd2⟩
          · refine Or.inl ⟨he2, rem2, fs2, by rw [hr1, hr2, List.append_assoc], hs2, ?_⟩
            simp only [List.length_cons]; omega
          · refine Or.inr ⟨he2, by rw [hr1, hr2], hb2, ht2, ?_⟩
            have hcfg : r1.skipCheck = r.skipCheck ∧ r1.checkUTF8 = r.checkUTF8 ∧ r1.ext = r.ext ∧ r1.maxFrame = r.maxFrame := by
              have c1 : Common skip st maxF r1 s1 := by cases hs1 <;> assumption
              have c0 : Common skip st maxF r s := by cases hs <;> assumption
              exact ⟨by rw [c1.skip, c0.skip], by rw [c1.u8, c0.u8], by rw [c1.ext, c0.ext], by rw [c1.maxF, c0.maxF]⟩
            obtain ⟨g1, g2, g3, g5⟩ := hd2.cfg
            exact ⟨hd2.has, hd2.state, hd2.op, hd2.u8, hd2.raw, hd2.u8on,
              by rw [g1, hcfg.1], by rw [g2, hcfg.2.1], by rw [g3, hcfg.2.2.1], by rw [g5, hcfg.2.2.2]⟩
        · right
          refine ⟨k :: ks1, k2, ks2, b ++ o1, r2, s2, by rw [hks]; rfl, ?_, by rw [hr1, hrem2], hend2⟩
          simp only [reads, hrd, hrd2, List.take_length]
      · subst he
        left
        simp only [reads, hrd, List.take_length]
        exact ⟨b, some .eof, r1, s1, rfl, Or.inr ⟨rfl, hr1, hb1, ht1, hd1⟩⟩
    · right
      exact ⟨[], k, ks, [], r, s, rfl, rfl, hend.rem, ⟨hend.opn, hend.common, hend.has, hend.state, hend.bytes, rfl⟩⟩

/-- chaining: Reads that ended without error continue from where they stopped -/
theorem reads_append (r : Rd) (s : Src) (cx : Ctx) (ks1 ks2 : List Nat) (o1 : Bytes) (r1 : Rd) (s1 : Src) (cx1 : Ctx)
    (h : reads r s cx ks1 = some (o1, none, r1, s1, cx1)) :
    reads r s cx (ks1 ++ ks2) = (reads r1 s1 cx1 ks2).map fun x => (o1 ++ x.1, x.2) := by
  induction ks1 generalizing r s cx o1 with
  | nil =>
    simp only [reads, Option.some.injEq, Prod.mk.injEq] at h
    obtain ⟨h1, _, h3, h4, h5⟩ := h
    subst h1 h3 h4 h5
    cases hq : reads r s cx ks2 <;> simp [hq]
  | cons k ks ih =>
    simp only [reads, List.cons_append] at h ⊢
    cases hrd : r.read s cx k none with
    | none => simp [hrd] at h
    | some res =>
      obtain ⟨bytes, n, e, r', s', cx'⟩ := res
      simp only [hrd] at h ⊢
      cases e with
      | some e => simp at h
      | none =>
        simp only at h ⊢
        cases hrs : reads r' s' cx' ks with
        | none => simp [hrs] at h
        | some res2 =>
          obtain ⟨o, e2, r2, s2, cx2⟩ := res2
          simp only [hrs, Option.some.injEq, Prod.mk.injEq] at h
          obtain ⟨h1, h2, h3, h4, h5⟩ := h
          subst h2 h3 h4 h5
          rw [ih r' s' cx' o hrs]
          cases reads r2 s2 cx2 ks2 with
          | none => simp
          | some x => simp [← h1, List.append_assoc]

end Ws.RdProof

namespace Ws.RdProof
open Ws Ws.Spec

/-! ### a transport that ends inside the current frame (C16) -/

/-- the reader is inside a frame of which the transport holds fewer bytes than are outstanding -/
structure CutFrame (r : Rd) (s : Src) : Prop where
  has : r.hasFrame = true
  noU : r.utf8on = false
  short : s.bytes.length < r.rawN
  wf : Bytes.WF s.bytes
  mwf : r.mask.WF

/-- **One Read of a cut frame**: it hands out genuine (unmasked) bytes of the frame with no error
    while the transport has some, and otherwise reports io.ErrUnexpectedEOF or the transport's own
    failure — never io.EOF, never success for the frame. -/
theorem read_cut (r : Rd) (s : Src) (cx : Ctx) (cb : Option Callback) (k : Nat) (h : CutFrame r s) (hk : 0 < k) :
    ∃ got e s1, r.read s cx k cb = some (plainOf r got, got.length, e, adv r got.length, s1, cx)
      ∧ got ++ s1.bytes = s.bytes ∧ s1.fin = s.fin
      ∧ ((e = none ∧ mu s1 < mu s ∧ CutFrame (adv r got.length) s1)
         ∨ (e = some .ueof ∧ s.fin = .eof) ∨ (e = some .fail ∧ s.fin = .fail)) := by
  have hrn : r.rawN ≠ 0 := by have := h.short; omega
  have hsplit := C02.src_read_split s (min k r.rawN)
  have hlen := src_read_len s (min k r.rawN)
  have hwf := C02.src_read_wf s (min k r.rawN) h.wf
  have hfin := src_read_fin s (min k r.rawN)
  unfold Rd.read
  simp only [h.has, Bool.not_true, Bool.false_eq_true, if_false]
  unfold Rd.frameRead Rd.rawRead
  simp only [hrn, if_false]
  rcases hr : s.read (min k r.rawN) with ⟨got, e, s1⟩
  rw [hr] at hsplit hlen hwf hfin
  simp only at hsplit hlen hwf hfin ⊢
  have hgl : got.length ≤ s.bytes.length := by rw [← hsplit]; simp
  have hleft : r.rawN - got.length > 0 := by have := h.short; omega
  have hcipher : (if r.masked then cipher got r.mask r.cpos else some got) = some (plainOf r got) := by
    unfold plainOf
    cases r.masked
    · simp
    · simp [C02.cipher_eq_spec got hwf.1 r.mask h.mwf r.cpos]
  simp only [hcipher, h.noU, Bool.false_eq_true, if_false, plainOf_length]
  have hadv : (if r.masked = true then
        ({ r with rawN := r.rawN - got.length, cpos := r.cpos + got.length } : Rd)
      else { r with rawN := r.rawN - got.length }) = adv r got.length := by
    unfold adv; cases hm : r.masked <;> simp
  refine ⟨got, ?_, s1, ?_, hsplit, hfin.1, ?_⟩
  · exact (match e with
      | none => none
      | some Fin.fail => some RErr.fail
      | some Fin.eof => some RErr.ueof)
  · cases e with
    | none =>
      have hne : (adv r got.length).rawN ≠ 0 := by simp [adv]; omega
      cases hm : r.masked <;> simp [hm, adv, h.noU] <;> omega
    | some f =>
      have hnz : ¬ (r.rawN - got.length = 0) := by omega
      cases f with
      | eof => cases hm : r.masked <;> simp [hm, adv, hleft, h.noU, hnz]
      | fail => cases hm : r.masked <;> simp [hm, adv, h.noU, hnz]
  · cases e with
    | none =>
      left
      have hne : s.chunks ≠ [] := by
        intro hc
        have : (s.read (min k r.rawN)).2.1 = some s.fin := by unfold Src.read; simp [hc]
        rw [hr] at this; simp at this
      have hmu := src_read_mu s (min k r.rawN) (by omega) hne
      rw [hr] at hmu
      refine ⟨rfl, hmu, ⟨by simp [adv, h.has], by simp [adv, h.noU], ?_, hwf.2, by simp [adv]; exact h.mwf⟩⟩
      have : s1.bytes.length = s.bytes.length - got.length := by
        rw [← hsplit]; simp
      have hs := h.short
      simp only [adv]; omega
    | some f =>
      have he : (s.read (min k r.rawN)).2.1 = some f := by rw [hr]
      have := (src_read_err s (min k r.rawN) f he).2
      cases f with
      | eof => right; left; exact ⟨rfl, this.symm⟩
      | fail => right; right; exact ⟨rfl, this.symm⟩

/-- **Any sequence of Reads of a cut frame**: everything handed out is a genuine prefix of what the
    transport held, the only errors possible are io.ErrUnexpectedEOF / the transport failure, and
    one of them is reported after at most (bytes + chunks + 1) Reads. -/
theorem reads_cut (ks : List Nat) (hpos : ∀ k ∈ ks, 0 < k) (r : Rd) (s : Src) (cx : Ctx) (h : CutFrame r s) :
    ∃ raw out e r' s', reads r s cx ks = some (out, e, r', s', cx) ∧ out = plainOf r raw ∧ raw ++ s'.bytes = s.bytes
      ∧ ((e = none ∧ mu s' + ks.length ≤ mu s) ∨ (e = some .ueof ∧ s.fin = .eof) ∨ (e = some .fail ∧ s.fin = .fail)) := by
  induction ks generalizing r s with
  | nil => exact ⟨[], [], none, r, s, rfl, by simp [plainOf, xorSpec], by simp, Or.inl ⟨rfl, by simp⟩⟩
  | cons k ks ih =>
    obtain ⟨got, e, s1, hrd, hsplit, hfin1, hcase⟩ := read_cut r s cx none k h (hpos k (by simp))
    simp only [reads, hrd]
    have hlen : (plainOf r got).length = got.length := plainOf_length r got
    rcases hcase with ⟨he, hmu, hcut⟩ | ⟨he, hf⟩ | ⟨he, hf⟩
    · subst he
      obtain ⟨raw2, o2, e2, r2, s2, hrd2, ho2, hsp2, hc2⟩ := ih (fun k' hk' => hpos k' (by simp [hk'])) (adv r got.length) s1 hcut
      simp only [hrd2]
      refine ⟨got ++ raw2, plainOf r got ++ o2, e2, r2, s2, by rw [List.take_of_length_le (by rw [hlen]; exact Nat.le_refl _)], ?_, ?_, ?_⟩
      · rw [ho2]
        have := plainOf_split r (got ++ raw2) got.length (by simp)
        simpa using this
      · rw [List.append_assoc, hsp2, hsplit]
      · rcases hc2 with ⟨h1, h2⟩ | ⟨h1, h2⟩ | ⟨h1, h2⟩
        · exact Or.inl ⟨h1, by simp only [List.length_cons]; omega⟩
        · exact Or.inr (Or.inl ⟨h1, by rw [← hfin1]; exact h2⟩)
        · exact Or.inr (Or.inr ⟨h1, by rw [← hfin1]; exact h2⟩)
    · subst he
      exact ⟨got, plainOf r got, some .ueof, adv r got.length, s1, by rw [List.take_of_length_le (by rw [hlen]; exact Nat.le_refl _)], rfl, hsplit, Or.inr (Or.inl ⟨rfl, hf⟩)⟩
    · subst he
      exact ⟨got, plainOf r got, some .fail, adv r got.length, s1, by rw [List.take_of_length_le (by rw [hlen]; exact Nat.le_refl _)], rfl, hsplit, Or.inr (Or.inr ⟨rfl, hf⟩)⟩

end Ws.RdProof
