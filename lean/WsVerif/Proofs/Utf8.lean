/- Helper lemmas for C07: the Hoehrmann table against Table 3-7. -/
import WsVerif.Model.Utf8
import WsVerif.Spec.Utf8
namespace Ws
open Ws.Spec

/-- The DFA's numbering of the nine positions. -/
def u8Enc : U8 → Nat
  | .acc => 0 | .rej => 12 | .c1 => 24 | .c2 => 36 | .e0 => 48 | .ed => 60 | .f0 => 72 | .c3 => 84 | .f4 => 96

def u8States : List U8 := [.acc, .rej, .c1, .c2, .c3, .e0, .ed, .f0, .f4]

theorem u8States_complete (s : U8) : s ∈ u8States := by cases s <;> simp [u8States]

theorem u8Enc_inj {a b : U8} (h : u8Enc a = u8Enc b) : a = b := by
  cases a <;> cases b <;> simp [u8Enc] at h <;> rfl

/-- All 9 × 256 transitions of the table agree with Table 3-7 (checked by the kernel). -/
theorem utf8_table_tbl :
    (u8States.all fun s => (List.range 256).all fun b =>
      utf8Step (u8Enc s) b == some (u8Enc (u8Step s b))) = true := by decide +kernel

theorem utf8Step_ok (s : U8) {b : Nat} (hb : b < 256) :
    utf8Step (u8Enc s) b = some (u8Enc (u8Step s b)) := by
  have h := utf8_table_tbl
  rw [List.all_eq_true] at h
  have h2 := h s (u8States_complete s)
  rw [List.all_eq_true] at h2
  exact beq_iff_eq.mp (h2 b (List.mem_range.mpr hb))

theorem u8Step_rej (b : Nat) : u8Step .rej b = .rej := rfl

theorem u8Run_rej (bs : Bytes) : u8Run .rej bs = .rej := by
  induction bs with
  | nil => rfl
  | cons b bs ih => simp only [u8Run, List.foldl_cons, u8Step_rej] at ih ⊢; exact ih

theorem u8Run_cons (s : U8) (b : Nat) (bs : Bytes) : u8Run s (b :: bs) = u8Run (u8Step s b) bs := rfl

theorem u8Run_append (s : U8) (a b : Bytes) : u8Run s (a ++ b) = u8Run (u8Run s a) b := by
  simp [u8Run, List.foldl_append]

end Ws
