/-
  Base: bytes, hex, transport (Src) model and the chunk-independence lemma for io.ReadFull.
  Core Lean only (this file is imported by the compiled driver).
-/
namespace Ws

/-- A byte is a natural number; every generator and every decoder keeps it `< 256`.
    Theorems that need the bound carry it as an explicit hypothesis (`Bytes.WF`). -/
abbrev Bytes := List Nat

def Bytes.WF (p : Bytes) : Prop := ∀ b ∈ p, b < 256

instance (p : Bytes) : Decidable (Bytes.WF p) := by unfold Bytes.WF; infer_instance

/-! ### hex -/

def hexChar (n : Nat) : Char :=
  if n < 10 then Char.ofNat (48 + n) else Char.ofNat (87 + n)

def Bytes.toHex (p : Bytes) : String :=
  if p.isEmpty then "-" else
  String.mk (p.foldr (fun b acc => hexChar (b / 16 % 16) :: hexChar (b % 16) :: acc) [])

def hexVal (c : Char) : Option Nat :=
  if '0' ≤ c ∧ c ≤ '9' then some (c.toNat - 48)
  else if 'a' ≤ c ∧ c ≤ 'f' then some (c.toNat - 87)
  else if 'A' ≤ c ∧ c ≤ 'F' then some (c.toNat - 55)
  else none

def hexDecodeAux : List Char → Option Bytes
  | [] => some []
  | [_] => none
  | a :: b :: rest => do
      let x ← hexVal a
      let y ← hexVal b
      let r ← hexDecodeAux rest
      pure ((x * 16 + y) :: r)

def Bytes.ofHex? (s : String) : Option Bytes :=
  if s == "-" then some [] else hexDecodeAux s.toList

/-! ### transport model -/

/-- How a transport ends once its bytes are exhausted. -/
inductive Fin where
  | eof   -- clean end of stream (io.EOF)
  | fail  -- any other transport error
  deriving DecidableEq, Repr, Inhabited

/-- Error classes of io.ReadFull. -/
inductive RdErr where
  | eof | ueof | fail
  deriving DecidableEq, Repr, Inhabited

/-- A transport: the chunks successive `Read` calls will return (a `Read(p)` returns at most
    `len p` bytes of the first chunk — arbitrary short reads), then `fin` forever. -/
structure Src where
  chunks : List Bytes
  fin : Fin
  /-- io.Reader allows the last data to arrive together with the error (`n > 0, io.EOF`). -/
  dataWithFin : Bool := false
  deriving DecidableEq, Repr, Inhabited

def Src.bytes (s : Src) : Bytes := s.chunks.flatten

/-- One `Read(p)` with `len p = k`. An empty chunk models `0, nil`. -/
def Src.read (s : Src) (k : Nat) : Bytes × Option Fin × Src :=
  match s.chunks with
  | [] => ([], some s.fin, s)
  | c :: cs =>
    if c.length ≤ k then
      (c, if cs.isEmpty && s.dataWithFin then some s.fin else none, { s with chunks := cs })
    else (c.take k, none, { s with chunks := c.drop k :: cs })

/-- Go's io.ReadFull loop over the chunk list: bytes obtained and chunks left. -/
def readFullAux : List Bytes → Nat → Bytes × List Bytes
  | cs, 0 => ([], cs)
  | [], _ + 1 => ([], [])
  | c :: cs, n + 1 =>
    if c.length ≤ n + 1 then
      let r := readFullAux cs (n + 1 - c.length)
      (c ++ r.1, r.2)
    else (c.take (n + 1), c.drop (n + 1) :: cs)

def Src.readFull (s : Src) (n : Nat) : Except RdErr Bytes × Src :=
  let r := readFullAux s.chunks n
  if r.1.length = n then (.ok r.1, { s with chunks := r.2 })
  else
    (.error (match s.fin with
             | .eof => if r.1.isEmpty then .eof else .ueof
             | .fail => .fail), { s with chunks := [] })

theorem readFullAux_fst (cs : List Bytes) (n : Nat) :
    (readFullAux cs n).1 = cs.flatten.take n := by
  induction cs generalizing n with
  | nil => cases n <;> simp [readFullAux]
  | cons c cs ih =>
    cases n with
    | zero => simp [readFullAux]
    | succ n =>
      simp only [readFullAux]
      split
      · rename_i h
        simp only [ih, List.flatten_cons]
        rw [List.take_append]
        rw [List.take_of_length_le h]
      · rename_i h
        simp only [List.flatten_cons]
        rw [List.take_append_of_le_length (by omega)]

theorem readFullAux_snd (cs : List Bytes) (n : Nat) :
    (readFullAux cs n).2.flatten = cs.flatten.drop n := by
  induction cs generalizing n with
  | nil => cases n <;> simp [readFullAux]
  | cons c cs ih =>
    cases n with
    | zero => simp [readFullAux]
    | succ n =>
      simp only [readFullAux]
      split
      · rename_i h
        simp only [ih, List.flatten_cons]
        rw [List.drop_append]
        rw [List.drop_of_length_le h]
        simp
      · rename_i h
        simp only [List.flatten_cons]
        rw [List.drop_append_of_le_length (by omega)]

/-- Flat description of io.ReadFull: a function of the byte string and the end kind only. -/
def readFullFlat (bs : Bytes) (fin : Fin) (n : Nat) : Except RdErr Bytes × Bytes :=
  if n ≤ bs.length then (.ok (bs.take n), bs.drop n)
  else (.error (match fin with
                | .eof => if bs.isEmpty then .eof else .ueof
                | .fail => .fail), [])

/-- **Chunk independence of io.ReadFull**: result and remaining bytes depend only on the
    concatenated bytes and on how the transport ends, never on the chunking. -/
theorem Src.readFull_flat (s : Src) (n : Nat) :
    ((s.readFull n).1, (s.readFull n).2.bytes, (s.readFull n).2.fin)
      = ((readFullFlat s.bytes s.fin n).1, (readFullFlat s.bytes s.fin n).2, s.fin) := by
  unfold Src.readFull readFullFlat Src.bytes
  have h1 := readFullAux_fst s.chunks n
  have h2 := readFullAux_snd s.chunks n
  simp only [h1]
  by_cases hn : n ≤ s.chunks.flatten.length
  · have h3 : (List.take n s.chunks.flatten).length = n := by rw [List.length_take]; omega
    simp only [if_pos h3, if_pos hn, h2]
  · have h3 : (List.take n s.chunks.flatten).length ≠ n := by rw [List.length_take]; omega
    have h4 : List.take n s.chunks.flatten = s.chunks.flatten :=
      List.take_of_length_le (by omega)
    rw [h4] at h3
    simp only [h4, if_neg h3, if_neg hn, List.flatten_nil]

theorem Src.readFull_ok (s : Src) (n : Nat) (h : n ≤ s.bytes.length) :
    ∃ s', s.readFull n = (.ok (s.bytes.take n), s') ∧ s'.bytes = s.bytes.drop n ∧ s'.fin = s.fin := by
  have := s.readFull_flat n
  simp only [readFullFlat, if_pos h, Prod.mk.injEq] at this
  exact ⟨(s.readFull n).2, Prod.ext this.1 rfl, this.2.1, this.2.2⟩

theorem Src.readFull_err (s : Src) (n : Nat) (h : s.bytes.length < n) :
    ∃ e s', s.readFull n = (.error e, s') ∧ s'.bytes = [] ∧ s'.fin = s.fin
      ∧ (e = .eof ↔ (s.bytes = [] ∧ s.fin = .eof)) ∧ (e = .fail ↔ s.fin = .fail) := by
  have := s.readFull_flat n
  simp only [readFullFlat, if_neg (Nat.not_le.mpr h), Prod.mk.injEq] at this
  refine ⟨_, (s.readFull n).2, Prod.ext this.1 rfl, this.2.1, this.2.2, ?_, ?_⟩
  · cases s.fin <;> cases hb : s.bytes <;> simp
  · cases s.fin <;> cases hb : s.bytes <;> simp

end Ws
