/-
  Independent raw-DEFLATE decoder (RFC 1951), written from the RFC: stored, fixed-Huffman and
  dynamic-Huffman blocks.  It is the "independent raw-DEFLATE decoder" of C12 and, composed with
  the suffixedReader model, the contract assumed of compress/flate's reader.
  Executable; kept free of proofs (it is a specification).
-/
import WsVerif.Base
import Std.Data.HashMap
namespace Ws.Spec

inductive InflateEnd where
  | final          -- a block with BFINAL = 1 was completed
  | boundary       -- input exhausted exactly at a block boundary (after a sync flush)
  | truncated      -- input ended inside a block
  | corrupt (why : String)
  deriving DecidableEq, Repr

structure Bits where
  data : Array Nat
  pos : Nat := 0          -- bit position
  deriving Inhabited

def Bits.remaining (b : Bits) : Nat := b.data.size * 8 - b.pos

def Bits.bit (b : Bits) : Option (Nat × Bits) :=
  if b.pos < b.data.size * 8 then
    some ((b.data[b.pos / 8]! >>> (b.pos % 8)) % 2, { b with pos := b.pos + 1 })
  else none

/-- n bits, least significant first (RFC 1951 §3.1.1). -/
def Bits.bits (b : Bits) : Nat → Option (Nat × Bits)
  | 0 => some (0, b)
  | n + 1 =>
    match b.bit with
    | none => none
    | some (x, b1) =>
      match b1.bits n with
      | none => none
      | some (r, b2) => some (x + 2 * r, b2)

def Bits.align (b : Bits) : Bits := { b with pos := (b.pos + 7) / 8 * 8 }

/-- Canonical Huffman code from code lengths (RFC 1951 §3.2.2): list of (length, code, symbol). -/
def mkCodes (lens : List Nat) : List (Nat × Nat × Nat) :=
  let maxLen := lens.foldl max 0
  let blCount (l : Nat) : Nat := if l == 0 then 0 else (lens.filter (· == l)).length
  -- next_code[len]
  let nextCode : List Nat := (List.range (maxLen + 1)).foldl (fun (acc : List Nat) bits =>
    if bits == 0 then [0] else acc ++ [((acc.getLastD 0) + blCount (bits - 1)) * 2]) []
  let (_, out) := (List.range lens.length).foldl (fun (st : List Nat × List (Nat × Nat × Nat)) sym =>
    let l := lens.getD sym 0
    if l == 0 then st else
    let c := st.1.getD l 0
    (st.1.set l (c + 1), (l, c, sym) :: st.2)) (nextCode, [])
  out

structure Huff where
  tbl : Std.HashMap Nat Nat      -- key = length * 65536 + code
  maxLen : Nat

def mkHuff (lens : List Nat) : Huff :=
  { tbl := (mkCodes lens).foldl (fun m e => m.insert (e.1 * 65536 + e.2.1) e.2.2) {}, maxLen := lens.foldl max 0 }

/-- decode one symbol: Huffman codes are packed most significant bit first. -/
def Huff.decode (h : Huff) (b : Bits) : Option (Option Nat × Bits) :=
  let rec go (fuel : Nat) (len code : Nat) (b : Bits) : Option (Option Nat × Bits) :=
    match fuel with
    | 0 => some (none, b)
    | fuel + 1 =>
      match b.bit with
      | none => none
      | some (x, b1) =>
        let code := code * 2 + x
        let len := len + 1
        match h.tbl[len * 65536 + code]? with
        | some sym => some (some sym, b1)
        | none => go fuel len code b1
  go h.maxLen 0 0 b

def lenBase : List Nat := [3, 4, 5, 6, 7, 8, 9, 10, 11, 13, 15, 17, 19, 23, 27, 31, 35, 43, 51, 59, 67, 83, 99, 115, 131, 163, 195, 227, 258]
def lenExtra : List Nat := [0, 0, 0, 0, 0, 0, 0, 0, 1, 1, 1, 1, 2, 2, 2, 2, 3, 3, 3, 3, 4, 4, 4, 4, 5, 5, 5, 5, 0]
def distBase : List Nat := [1, 2, 3, 4, 5, 7, 9, 13, 17, 25, 33, 49, 65, 97, 129, 193, 257, 385, 513, 769, 1025, 1537, 2049, 3073, 4097, 6145, 8193, 12289, 16385, 24577]
def distExtra : List Nat := [0, 0, 0, 0, 1, 1, 2, 2, 3, 3, 4, 4, 5, 5, 6, 6, 7, 7, 8, 8, 9, 9, 10, 10, 11, 11, 12, 12, 13, 13]

def fixedLit : Huff := mkHuff ((List.replicate 144 8) ++ (List.replicate 112 9) ++ (List.replicate 24 7) ++ (List.replicate 8 8))
def fixedDist : Huff := mkHuff (List.replicate 30 5)

def clOrder : List Nat := [16, 17, 18, 0, 8, 7, 9, 6, 10, 5, 11, 4, 12, 3, 13, 2, 14, 1, 15]

/-- Huffman-coded block body: literals, lengths, distances until end-of-block (256). -/
def inflateCodes (lit dist : Huff) : Nat → Bits → Array Nat → Sum InflateEnd (Bits × Array Nat)
  | 0, _, _ => .inl (.corrupt "fuel")
  | fuel + 1, b, out =>
    match lit.decode b with
    | none => .inl .truncated
    | some (none, _) => .inl (.corrupt "bad literal/length code")
    | some (some sym, b1) =>
      if sym < 256 then inflateCodes lit dist fuel b1 (out.push sym)
      else if sym == 256 then .inr (b1, out)
      else if sym > 285 then .inl (.corrupt "length symbol > 285")
      else
        match b1.bits (lenExtra.getD (sym - 257) 0) with
        | none => .inl .truncated
        | some (ex, b2) =>
          let len := lenBase.getD (sym - 257) 0 + ex
          match dist.decode b2 with
          | none => .inl .truncated
          | some (none, _) => .inl (.corrupt "bad distance code")
          | some (some ds, b3) =>
            if ds > 29 then .inl (.corrupt "distance symbol > 29") else
            match b3.bits (distExtra.getD ds 0) with
            | none => .inl .truncated
            | some (dex, b4) =>
              let d := distBase.getD ds 0 + dex
              if d > out.size then .inl (.corrupt "distance beyond output") else
              let out' := (List.range len).foldl (fun (o : Array Nat) _ => o.push o[o.size - d]!) out
              inflateCodes lit dist fuel b4 out'

/-- the code lengths of a dynamic block (HLIT + HDIST entries) -/
def readLens (cl : Huff) : Nat → Nat → Bits → List Nat → Sum InflateEnd (Bits × List Nat)
  | 0, _, _, _ => .inl (.corrupt "fuel")
  | fuel + 1, want, b, acc =>
    if acc.length ≥ want then .inr (b, acc) else
    match cl.decode b with
    | none => .inl .truncated
    | some (none, _) => .inl (.corrupt "bad code-length code")
    | some (some s, b1) =>
      if s < 16 then readLens cl fuel want b1 (acc ++ [s])
      else if s == 16 then
        match b1.bits 2 with
        | none => .inl .truncated
        | some (r, b2) =>
          match acc.getLast? with
          | none => .inl (.corrupt "repeat without previous length")
          | some p => readLens cl fuel want b2 (acc ++ List.replicate (3 + r) p)
      else if s == 17 then
        match b1.bits 3 with
        | none => .inl .truncated
        | some (r, b2) => readLens cl fuel want b2 (acc ++ List.replicate (3 + r) 0)
      else
        match b1.bits 7 with
        | none => .inl .truncated
        | some (r, b2) => readLens cl fuel want b2 (acc ++ List.replicate (11 + r) 0)

def inflateBlocks : Nat → Bits → Array Nat → Array Nat × InflateEnd
  | 0, _, out => (out, .corrupt "fuel")
  | fuel + 1, b, out =>
    if b.remaining == 0 then (out, .boundary) else
    match b.bits 3 with
    | none => (out, if b.remaining < 8 then .boundary else .truncated)   -- padding bits of the last byte
    | some (hdr, b1) =>
      let final := hdr % 2 == 1
      let typ := hdr / 2
      let next (r : Sum InflateEnd (Bits × Array Nat)) : Array Nat × InflateEnd :=
        match r with
        | .inl e => (out, e)
        | .inr (b', out') => if final then (out', .final) else inflateBlocks fuel b' out'
      if typ == 0 then
        let b2 := b1.align
        match b2.bits 16 with
        | none => (out, .truncated)
        | some (len, b3) =>
          match b3.bits 16 with
          | none => (out, .truncated)
          | some (nlen, b4) =>
            if len + nlen != 65535 then (out, .corrupt "stored LEN/NLEN") else
            if b4.remaining < len * 8 then (out, .truncated) else
            let start := b4.pos / 8
            let out' := (List.range len).foldl (fun (o : Array Nat) i => o.push b4.data[start + i]!) out
            next (.inr ({ b4 with pos := b4.pos + len * 8 }, out'))
      else if typ == 1 then next (inflateCodes fixedLit fixedDist (b1.remaining + 1) b1 out)
      else if typ == 2 then
        match b1.bits 5 with
        | none => (out, .truncated)
        | some (hlit, b2) =>
          match b2.bits 5 with
          | none => (out, .truncated)
          | some (hdist, b3) =>
            match b3.bits 4 with
            | none => (out, .truncated)
            | some (hclen, b4) =>
              let rec clens (n : Nat) (b : Bits) (acc : List Nat) : Option (Bits × List Nat) :=
                match n with
                | 0 => some (b, acc)
                | n + 1 =>
                  match b.bits 3 with
                  | none => none
                  | some (v, b') => clens n b' (acc ++ [v])
              match clens (hclen + 4) b4 [] with
              | none => (out, .truncated)
              | some (b5, cls) =>
                let clLens := (List.range 19).map fun sym =>
                  match clOrder.idxOf? sym with
                  | some i => cls.getD i 0
                  | none => 0
                let cl := mkHuff clLens
                match readLens cl (hlit + hdist + 400) (hlit + 257 + hdist + 1) b5 [] with
                | .inl e => (out, e)
                | .inr (b6, lens) =>
                  if lens.length != hlit + 257 + hdist + 1 then (out, .corrupt "code lengths overrun") else
                  let lit := mkHuff (lens.take (hlit + 257))
                  let dist := mkHuff (lens.drop (hlit + 257))
                  next (inflateCodes lit dist (b6.remaining + 1) b6 out)
      else (out, .corrupt "block type 3")

/-- Inflate a raw DEFLATE stream: the output and how the stream ended. -/
def inflate (data : Bytes) : Bytes × InflateEnd :=
  let (out, e) := inflateBlocks (data.length + 2) { data := data.toArray } #[]
  (out.toList, e)

end Ws.Spec
