/-
  Spec for C14: RFC 7692 §7.1 — what a legal answer to a permessage-deflate offer is.
-/
import WsVerif.Model.Negotiate
namespace Ws.Spec
open Ws

def validBits (b : Nat) : Prop := 8 ≤ b ∧ b ≤ 15

/-- `ans` is a legal response to `offer` (both as parsed parameters):
    §7.1.1.1 server_no_context_takeover present whenever the client asked for it;
    §7.1.2.1 server_max_window_bits present and ≤ the request when the client requested a limit;
    §7.1.2.2 client_max_window_bits only if the client offered it, with a value (8..15) ≤ an offered value;
    every window value in 8..15. -/
def LegalAnswer (offer ans : Params) : Prop :=
  (offer.snct = true → ans.snct = true)
  ∧ (offer.smwb ≠ 0 → ans.smwb ≠ 0 ∧ ans.smwb ≤ offer.smwb)
  ∧ (ans.smwb ≠ 0 → validBits ans.smwb)
  ∧ (ans.cmwb ≠ 0 → offer.cmwb ≠ 0 ∧ validBits ans.cmwb ∧ (offer.cmwb ≠ 1 → ans.cmwb ≤ offer.cmwb))

instance (o a : Params) : Decidable (LegalAnswer o a) := by unfold LegalAnswer validBits; infer_instance

/-- A well-formed offer as RFC 7692 §7 defines it: known parameter names, no duplicates, window
    values decimal 8..15 (server_max_window_bits needs a value; the *_no_context_takeover take none). -/
def decimal8to15 (v : Bytes) : Bool :=
  -- all ASCII digits and value in 8..15 (leading zeros left open: judged by value)
  !v.isEmpty && v.all (fun c => 48 ≤ c && c ≤ 57) &&
    (let n := v.foldl (fun a c => a * 10 + (c - 48)) 0; 8 ≤ n && n ≤ 15)

def allDistinct : List Bytes → Bool
  | [] => true
  | k :: ks => !ks.contains k && allDistinct ks

def wellFormedParams (ps : List (Bytes × Bytes)) : Bool :=
  let keys := ps.map (·.1)
  keys.all (fun k => k == kSnct || k == kCnct || k == kSmwb || k == kCmwb)
  && allDistinct keys
  && ps.all (fun (k, v) =>
      if k == kSnct || k == kCnct then v.isEmpty
      else if k == kSmwb then decimal8to15 v
      else v.isEmpty || decimal8to15 v)

end Ws.Spec
