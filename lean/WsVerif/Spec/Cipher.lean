/- Spec for C02: RFC 6455 §5.3 — transformed-octet-i = original-octet-i XOR masking-key-octet-(i MOD 4),
   with a running stream offset. -/
import WsVerif.Model.Header
namespace Ws.Spec
open Ws

def keyAt (m : Mask) (j : Nat) : Nat := m.toList.getD (j % 4) 0

def xorSpec (p : Bytes) (key : Mask) (offset : Nat) : Bytes :=
  p.mapIdx fun i b => b ^^^ keyAt key (offset + i)

end Ws.Spec
