/-
  Spec for C04/C05/C16: frame streams at the RFC level.
  A stream is parsed with the §5.2 decoder (Spec/Header), payloads are unmasked with the §5.3 XOR
  (Spec/Cipher), validity is the C03 rule set threaded through the fragmentation state, and the
  expected deliveries are "opcode of the first frame + concatenation of the unmasked fragment
  payloads" per data message, and every control frame with its unmasked payload, in stream order.
-/
import WsVerif.Spec.Header
import WsVerif.Spec.Cipher
import WsVerif.Spec.Check
import WsVerif.Spec.Utf8
namespace Ws.Spec
open Ws

structure SFrame where
  h : Header
  wire : Bytes          -- payload as on the wire
  start : Nat           -- byte offset of the frame in the stream
  deriving Repr

def SFrame.plain (f : SFrame) : Bytes := if f.h.masked then xorSpec f.wire f.h.mask 0 else f.wire
def SFrame.stop (f : SFrame) : Nat := f.start + rfcSize f.h + f.h.len

inductive Tail where
  | clean                 -- the stream ends at a frame boundary
  | cutHeader (off : Nat)  -- ends inside a header starting at `at`
  | cutPayload (f : SFrame) (got : Nat)  -- header complete, only `have` payload bytes present
  | badLength (off : Nat)  -- 64-bit length with the top bit set
  deriving Repr

/-- Parse whole frames from a byte string. -/
def parseStream : Nat → Nat → Bytes → List SFrame → List SFrame × Tail
  | 0, off, _, acc => (acc.reverse, .cutHeader off)
  | fuel + 1, off, bs, acc =>
    if bs.isEmpty then (acc.reverse, .clean) else
    match rfcDecode bs with
    | .ok h k =>
      let rest := bs.drop k
      if rest.length < h.len then (acc.reverse, .cutPayload ⟨h, rest, off⟩ rest.length)
      else parseStream fuel (off + k + h.len) (rest.drop h.len) (⟨h, rest.take h.len, off⟩ :: acc)
    | .incomplete => (acc.reverse, .cutHeader off)
    | .msb => (acc.reverse, .badLength off)

def isCtl (op : Nat) : Bool := decide (8 ≤ op)

/-- The rules a receiver in state `st` (server/client/extended bits; `frag` tracked separately)
    applies to a frame: the first broken rule name, if any. `ext` = compression extension attached:
    RSV1 allowed on first data frames only (RFC 7692 §6) — and only when the state says extensions
    were negotiated: an attached extension does not by itself lift the RSV rule. -/
def frameBad (side : Nat) (ext : Bool) (frag : Bool) (h : Header) : Bool :=
  let st : St := { server := side % 2 == 1, client := side / 2 % 2 == 1,
                   extended := side / 4 % 2 == 1, fragmented := frag }
  allRules.any (fun r => decide (Broken r h st))
  || (ext && h.rsv / 4 % 2 == 1 && (isCtl h.op || h.op == 0))

/-- Index of the first frame breaking a rule (given the fragmentation state built by the frames
    before it), if any. -/
def firstBad (side : Nat) (ext : Bool) : Bool → Nat → List SFrame → Option Nat
  | _, _, [] => none
  | frag, i, f :: fs =>
    if frameBad side ext frag f.h then some i
    else firstBad side ext (if isCtl f.h.op then frag else !f.h.fin) (i + 1) fs

/-- With the header check switched off (SkipHeaderCheck) the attached compression extension still has
    its own rule: RSV1 on a control or continuation frame is refused (RFC 7692 §6). -/
def firstBadExt (ext : Bool) : Nat → List SFrame → Option Nat
  | _, [] => none
  | i, f :: fs => if ext && f.h.rsv / 4 % 2 == 1 && (isCtl f.h.op || f.h.op == 0) then some i else firstBadExt ext (i + 1) fs

/-- Index of the first frame announcing more than `max` payload bytes (`max = 0`: no limit). -/
def firstBig (max : Nat) : Nat → List SFrame → Option Nat
  | _, [] => none
  | i, f :: fs => if max > 0 ∧ f.h.len > max then some i else firstBig max (i + 1) fs

def optMin : Option Nat → Option Nat → Option Nat
  | none, b => b
  | a, none => a
  | some a, some b => some (min a b)

/-- A top-level unit of a valid stream: a control frame outside any message, or a data message with
    the control frames interleaved between its fragments. -/
structure MUnit where
  op : Nat
  payload : Bytes               -- concatenation of the unmasked fragment payloads
  inter : List (Nat × Bytes)    -- interleaved control frames, in order
  complete : Bool               -- the final fragment was seen
  stop : Nat                    -- offset just past the unit's last frame
  nframes : Nat
  rsv1 : Bool                   -- RSV1 of the first frame
  deriving Repr

def units : List SFrame → Option MUnit → List MUnit → List MUnit
  | [], none, acc => acc.reverse
  | [], some u, acc => (u :: acc).reverse
  | f :: fs, none, acc =>
    if isCtl f.h.op then units fs none (⟨f.h.op, f.plain, [], true, f.stop, 1, false⟩ :: acc)
    else
      let u : MUnit := ⟨f.h.op, f.plain, [], f.h.fin, f.stop, 1, f.h.rsv / 4 % 2 == 1⟩
      if f.h.fin then units fs none (u :: acc) else units fs (some u) acc
  | f :: fs, some u, acc =>
    if isCtl f.h.op then units fs (some { u with inter := u.inter ++ [(f.h.op, f.plain)], stop := f.stop, nframes := u.nframes + 1 }) acc
    else
      let u' := { u with payload := u.payload ++ f.plain, complete := f.h.fin, stop := f.stop, nframes := u.nframes + 1 }
      if f.h.fin then units fs none (u' :: acc) else units fs (some u') acc

end Ws.Spec
