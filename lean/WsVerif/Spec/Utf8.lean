/-
  Spec for C07: well-formed UTF-8 exactly as Unicode Table 3-7 (no overlongs, no surrogates,
  nothing above U+10FFFF), written as "what may follow" row by row.
      00..7F
      C2..DF 80..BF
      E0     A0..BF 80..BF
      E1..EC 80..BF 80..BF
      ED     80..9F 80..BF
      EE..EF 80..BF 80..BF
      F0     90..BF 80..BF 80..BF
      F1..F3 80..BF 80..BF 80..BF
      F4     80..8F 80..BF 80..BF
-/
import WsVerif.Base
namespace Ws.Spec

/-- Position inside a code point: what the next byte has to be. -/
inductive U8 where
  | acc   -- between code points
  | rej   -- ill-formed
  | c1    -- one more continuation byte 80..BF
  | c2    -- two more
  | c3    -- three more
  | e0    -- after E0: A0..BF then one more
  | ed    -- after ED: 80..9F then one more
  | f0    -- after F0: 90..BF then two more
  | f4    -- after F4: 80..8F then two more
  deriving DecidableEq, Repr, Inhabited

def inR (b lo hi : Nat) : Bool := lo ≤ b && b ≤ hi

def u8Step : U8 → Nat → U8
  | .acc, b =>
    if b ≤ 0x7F then .acc
    else if inR b 0xC2 0xDF then .c1
    else if b = 0xE0 then .e0
    else if inR b 0xE1 0xEC then .c2
    else if b = 0xED then .ed
    else if inR b 0xEE 0xEF then .c2
    else if b = 0xF0 then .f0
    else if inR b 0xF1 0xF3 then .c3
    else if b = 0xF4 then .f4
    else .rej
  | .c1, b => if inR b 0x80 0xBF then .acc else .rej
  | .c2, b => if inR b 0x80 0xBF then .c1 else .rej
  | .c3, b => if inR b 0x80 0xBF then .c2 else .rej
  | .e0, b => if inR b 0xA0 0xBF then .c1 else .rej
  | .ed, b => if inR b 0x80 0x9F then .c1 else .rej
  | .f0, b => if inR b 0x90 0xBF then .c2 else .rej
  | .f4, b => if inR b 0x80 0x8F then .c2 else .rej
  | .rej, _ => .rej

def u8Run (s : U8) (bs : Bytes) : U8 := bs.foldl u8Step s

/-- A byte string is valid UTF-8 iff reading it row by row ends between code points. -/
def wfUtf8 (bs : Bytes) : Bool := u8Run .acc bs == .acc

end Ws.Spec
