/-
  Independent executable SHA-1 (FIPS 180-4) and base64 (RFC 4648 §4, with padding): the oracle for
  Sec-WebSocket-Accept = base64(SHA-1(key ++ GUID)), and the contract of crypto/sha1 and
  encoding/base64.StdEncoding in the handshake models.
-/
import WsVerif.Base
import WsVerif.Model.Check
namespace Ws.Spec
open Ws

def w32 : Nat := 4294967296
def rotl (x n : Nat) : Nat := ((x <<< n) ||| (x >>> (32 - n))) % w32
def not32 (x : Nat) : Nat := w32 - 1 - x % w32

def be32 (b : Bytes) : Nat := b.foldl (fun a x => a * 256 + x) 0
def toBe32 (x : Nat) : Bytes := [x / 16777216 % 256, x / 65536 % 256, x / 256 % 256, x % 256]
def toBe64 (x : Nat) : Bytes := toBe32 (x / w32) ++ toBe32 (x % w32)

def chunksN (n : Nat) : Nat → Bytes → List Bytes
  | 0, _ => []
  | fuel + 1, bs => if bs.isEmpty then [] else bs.take n :: chunksN n fuel (bs.drop n)

def sha1Pad (m : Bytes) : Bytes :=
  let l := m.length
  let k := (119 - l % 64) % 64        -- zero bytes so that (l + 1 + k) % 64 = 56
  m ++ [0x80] ++ List.replicate k 0 ++ toBe64 (l * 8)

def sha1Schedule (block : Bytes) : Array Nat :=
  let w0 := ((chunksN 4 16 block).map be32).toArray
  (List.range 64).foldl (fun (w : Array Nat) i =>
    let t := i + 16
    w.push (rotl ((w[t - 3]!) ^^^ (w[t - 8]!) ^^^ (w[t - 14]!) ^^^ (w[t - 16]!)) 1)) w0

def sha1Block (h : Nat × Nat × Nat × Nat × Nat) (block : Bytes) : Nat × Nat × Nat × Nat × Nat :=
  let w := sha1Schedule block
  let (h0, h1, h2, h3, h4) := h
  let (a, b, c, d, e) := (List.range 80).foldl (fun (s : Nat × Nat × Nat × Nat × Nat) t =>
    let (a, b, c, d, e) := s
    let (f, k) :=
      if t < 20 then ((b &&& c) ||| (not32 b &&& d), 0x5A827999)
      else if t < 40 then (b ^^^ c ^^^ d, 0x6ED9EBA1)
      else if t < 60 then ((b &&& c) ||| (b &&& d) ||| (c &&& d), 0x8F1BBCDC)
      else (b ^^^ c ^^^ d, 0xCA62C1D6)
    let temp := (rotl a 5 + f + e + k + w[t]!) % w32
    (temp, a, rotl b 30, c, d)) (h0, h1, h2, h3, h4)
  ((h0 + a) % w32, (h1 + b) % w32, (h2 + c) % w32, (h3 + d) % w32, (h4 + e) % w32)

def sha1 (m : Bytes) : Bytes :=
  let p := sha1Pad m
  let (a, b, c, d, e) := (chunksN 64 (p.length / 64 + 1) p).foldl sha1Block
    (0x67452301, 0xEFCDAB89, 0x98BADCFE, 0x10325476, 0xC3D2E1F0)
  toBe32 a ++ toBe32 b ++ toBe32 c ++ toBe32 d ++ toBe32 e

def b64Char (n : Nat) : Nat :=
  if n < 26 then 65 + n else if n < 52 then 97 + (n - 26) else if n < 62 then 48 + (n - 52) else if n = 62 then 43 else 47

def base64 : Bytes → Bytes
  | a :: b :: c :: rest =>
    let n := a * 65536 + b * 256 + c
    [b64Char (n / 262144 % 64), b64Char (n / 4096 % 64), b64Char (n / 64 % 64), b64Char (n % 64)] ++ base64 rest
  | [a, b] =>
    let n := a * 65536 + b * 256
    [b64Char (n / 262144 % 64), b64Char (n / 4096 % 64), b64Char (n / 64 % 64), 61]
  | [a] =>
    let n := a * 65536
    [b64Char (n / 262144 % 64), b64Char (n / 4096 % 64), 61, 61]
  | [] => []

def wsGUID : Bytes := strBytes "258EAFA5-E914-47DA-95CA-C5AB0DC85B11"

/-- RFC 6455 §4.2.2: Sec-WebSocket-Accept for a key. -/
def acceptOf (key : Bytes) : Bytes := base64 (sha1 (key ++ wsGUID))

end Ws.Spec
