/-
  Spec for C01: RFC 6455 §5.2 base framing, written with + * / % only (no bit operations),
  independently of the Go code.
-/
import WsVerif.Model.Header
namespace Ws.Spec
open Ws

def b2n (b : Bool) : Nat := if b then 1 else 0

/-- Big-endian base-256 digits of `v`, `k` of them. -/
def digitsBE : Nat → Nat → Bytes
  | 0, _ => []
  | k + 1, v => (v / 256 ^ k % 256) :: digitsBE k v

def len7code (len : Nat) : Nat := if len ≤ 125 then len else if len ≤ 65535 then 126 else 127
def lenExt (len : Nat) : Bytes :=
  if len ≤ 125 then [] else if len ≤ 65535 then digitsBE 2 len else digitsBE 8 len

/-- §5.2: the minimal encoding of a header. -/
def rfcEncode (h : Header) : Bytes :=
  [128 * b2n h.fin + 16 * h.rsv + h.op, 128 * b2n h.masked + len7code h.len]
    ++ lenExt h.len ++ (if h.masked then h.mask.toList else [])

/-- 2, 4 or 10 bytes, plus 4 when masked. -/
def rfcSize (h : Header) : Nat :=
  (if h.len ≤ 125 then 2 else if h.len ≤ 65535 then 4 else 10) + (if h.masked then 4 else 0)

inductive Decoded where
  | ok (h : Header) (consumed : Nat)
  | incomplete
  | msb
  deriving DecidableEq, Repr

/-- §5.2 read as a decoder (non-minimal length forms are decoded, like both Go decoders do). -/
def rfcDecode : Bytes → Decoded
  | b0 :: b1 :: rest =>
    let masked := b1 / 128 % 2 == 1
    let l7 := b1 % 128
    let nlen := if l7 < 126 then 0 else if l7 = 126 then 2 else 8
    let nmask := if masked then 4 else 0
    if rest.length < nlen + nmask then .incomplete
    else
      let len := if l7 < 126 then l7 else beVal (rest.take nlen)
      if l7 = 127 ∧ len ≥ 2 ^ 63 then .msb
      else
        let m := (rest.drop nlen)
        .ok ⟨b0 / 128 % 2 == 1, b0 / 16 % 8, b0 % 16, masked,
             if masked then ⟨m.getD 0 0, m.getD 1 0, m.getD 2 0, m.getD 3 0⟩ else Mask.zero, len⟩
            (2 + nlen + nmask)
  | _ => .incomplete

end Ws.Spec
