/-
  Spec for C03: the RFC 6455 rules the header check owns (§5.2, §5.4, §5.5, §5.1) and the close
  code ranges of §7.4, written with arithmetic only.
-/
import WsVerif.Model.Header
import WsVerif.Spec.Utf8
namespace Ws.Spec
open Ws

/-- Endpoint state, decoded from the State bit set: 1 server, 2 client, 4 extended, 8 fragmented. -/
structure St where
  server : Bool
  client : Bool
  extended : Bool
  fragmented : Bool
  deriving DecidableEq, Repr

def stOf (s : Nat) : St :=
  ⟨s % 2 == 1, s / 2 % 2 == 1, s / 4 % 2 == 1, s / 8 % 2 == 1⟩

/-- §5.2: opcodes 8..15 are control frames, 3..7 and 11..15 are reserved. -/
def isControl (op : Nat) : Prop := 8 ≤ op
def isReserved (op : Nat) : Prop := (3 ≤ op ∧ op ≤ 7) ∨ (11 ≤ op ∧ op ≤ 15)

inductive Rule where
  | reservedOpcode | controlTooLong | controlNotFinal | rsvWithoutExtension
  | serverGotUnmasked | clientGotMasked | dataWhileFragmented | continuationWhileIdle
  deriving DecidableEq, Repr

def Broken (r : Rule) (h : Header) (st : St) : Prop :=
  match r with
  | .reservedOpcode => isReserved h.op
  | .controlTooLong => isControl h.op ∧ h.len > 125
  | .controlNotFinal => isControl h.op ∧ h.fin = false
  | .rsvWithoutExtension => h.rsv ≠ 0 ∧ st.extended = false
  | .serverGotUnmasked => st.server = true ∧ h.masked = false
  | .clientGotMasked => st.client = true ∧ h.masked = true
  | .dataWhileFragmented => st.fragmented = true ∧ ¬ isControl h.op ∧ h.op ≠ 0
  | .continuationWhileIdle => st.fragmented = false ∧ h.op = 0

instance (r : Rule) (h : Header) (st : St) : Decidable (Broken r h st) := by
  unfold Broken isReserved isControl; cases r <;> infer_instance

def allRules : List Rule :=
  [.reservedOpcode, .controlTooLong, .controlNotFinal, .rsvWithoutExtension,
   .serverGotUnmasked, .clientGotMasked, .dataWhileFragmented, .continuationWhileIdle]

/-- §7.4: codes an endpoint may put in a Close frame. -/
def closeOk (c : Nat) : Prop := (1000 ≤ c ∧ c ≤ 1003) ∨ (1007 ≤ c ∧ c ≤ 1011) ∨ (3000 ≤ c ∧ c ≤ 4999)
instance (c : Nat) : Decidable (closeOk c) := by unfold closeOk; infer_instance

end Ws.Spec
