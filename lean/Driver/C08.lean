import Driver.C04Oracle
namespace Ws.Driver
open Ws Ws.Spec

def cerrStr : Option CErr → String
  | none => "nil"
  | some .dest => "dfail"
  | some (.src .eof) => "eof"
  | some (.src .ueof) => "ueof"
  | some (.src .fail) => "fail"
  | some (.srcOther t) => "other:" ++ t
  | some (.proto e) => "proto:" ++ e.goName
  | some (.closed c r) => s!"closed:{c}:{Bytes.toHex r}"
  | some .notControl => "notcontrol"
  | some .overflow => "ctloverflow"

def c08ctl (a : List String) (obs : String) : String × String :=
  match a with
  | [entry, st, op, p, mk, _] =>
    let state := natOr st
    let client := state / 2 % 2 == 1
    let server := state % 2 == 1
    let payload := hexOr p
    let mask := parseMask mk
    let masks := parseMasks obs
    let mstr := (obs.splitOn " masks=").getD 1 ""
    let chunk := natOr ((entry.splitOn "k").getD 1 "0")
    let srcCipher := entry.startsWith "H" && server
    let wire := if srcCipher then xorSpec payload mask 0 else payload
    let h : Header := { fin := true, rsv := 0, op := natOr op, masked := server, mask := if srcCipher then mask else Mask.zero, len := payload.length }
    let cut : Option Nat := if (entry.drop 1).startsWith "f" then some (natOr (entry.drop 2).toString) else none
    let src : CtlSrc := match cut with
      | some c => { chunks := if (wire.take c).isEmpty then [] else [wire.take c], fin := .fail, writerTo := false }
      | none => { chunks := if wire.isEmpty then [] else (if chunk == 0 then [wire] else chunksOf chunk wire),
                  writerTo := !srcCipher && chunk == 0 }
    let model := match handleControl client h src srcCipher { masks } ProtoErr.textBytes with
      | none => "PANIC"
      | some (er, e') => s!"{cerrStr er} @{writesStr2 e'.dst} masks={mstr}"
    let head := ((obs.splitOn " masks=").headD "").splitOn " "
    let err := head.headD ""
    let wr := head.getD 1 "@-"
    let wrBytes := if wr == "@-" then [] else (((wr.drop 1).toString.splitOn ",").map hexOr).flatten
    let verdict := match cut with
      | some _ =>
        if !wrBytes.isEmpty then "bad:reply-written-for-a-control-frame-that-was-cut"
        else if err == "nil" then "bad:cut-control-frame-handled-without-error" else "ok"
      | none => judgeCtl client (natOr op) payload masks err wrBytes
    (model, verdict)
  | _ => ("BADOP", "skip")

def cwRun (c : CtlWr) (e : Env) : List String → List String → List String
  | [], acc => acc.reverse
  | t :: ts, acc =>
    match t.splitOn ":" with
    | ["w", p] =>
      match c.write e (hexOr p) with
      | none => ("PANIC@" :: acc).reverse
      | some (n, er, c', e') => cwRun c' e' ts (s!"{n},{werrStr er}@{writesStr e.dst e'.dst}" :: acc)
    | _ =>
      match c.flush e with
      | none => ("PANIC@" :: acc).reverse
      | some (er, c', e') => cwRun c' e' ts (s!"{werrStr er}@{writesStr e.dst e'.dst}" :: acc)

def c08cw (a : List String) (obs : String) : String × String :=
  match a with
  | sd :: op :: ctor :: _seed :: toks =>
    let client := sd == "C"
    let masks := parseMasks obs
    let mstr := (obs.splitOn " masks=").getD 1 ""
    let c? := if ctor == "new" then newControlWriter client (natOr op)
              else newControlWriterBuffer client (natOr op) (natOr (ctor.drop 4).toString)
    let items := ((obs.splitOn " masks=").headD "").splitOn ";"
    match c? with
    | none => (s!"PANIC@ masks={mstr}", if (items.headD "").startsWith "PANIC" then "ok" else "bad:ctor")
    | some c =>
      let out := cwRun c { masks } toks ["ok@"]
      let model := ";".intercalate out ++ " masks=" ++ mstr
      -- oracle: frames are final control frames of <= 125 bytes; a write that would cross 125 fails
      let rec judge (toks items : List String) (acc : Bytes) (sent : Bytes) : String :=
        match toks, items with
        | [], _ | _, [] =>
          let (frames, left) := parseFrames (sent.length + 1) sent []
          if !left.isEmpty then "bad:partial-frame"
          else if frames.any fun f => !f.h.fin || f.h.len > 125 || f.h.op != natOr op || f.h.masked != client then "bad:oversized-or-non-final-control-frame"
          else "ok"
        | t :: ts, it :: its =>
          match it.splitOn "@" with
          | [res, ws] =>
            if res.startsWith "PANIC" then "bad:panic" else
            let sent' := sent ++ (if ws == "" then [] else ((ws.splitOn ",").map hexOr).flatten)
            match t.splitOn ":" with
            | ["w", p] =>
              let pl := hexOr p
              let n := natOr ((res.splitOn ",").headD "0")
              if acc.length + pl.length > 125 && (n != 0 || res.endsWith ",nil") then "bad:write-crossing-125-bytes-accepted"
              else if res.endsWith ",nil" && n != pl.length then "bad:short-write-without-error"
              else judge ts its (acc ++ pl.take n) sent'
            | _ =>
              -- flush: everything accepted so far leaves as the payload of the frame(s)
              let (frames, _) := parseFrames (sent'.length + 1) sent' []
              let plain := (frames.zipIdx.map fun (f, i) => if client then xorSpec f.payload (masks.getD i Mask.zero) 0 else f.payload).flatten
              if res == "nil" && plain != acc then "bad:flushed-payload-differs-from-accepted-bytes"
              else judge ts its acc sent'
          | _ => "bad:format"
      (model, if (items.headD "").startsWith "PANIC" then "bad:constructor-panicked" else judge toks (items.drop 1) [] [])
  | _ => ("BADOP", "skip")

end Ws.Driver
