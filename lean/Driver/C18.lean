import Driver.C12
import Driver.C06
import Driver.C07
namespace Ws.Driver
open Ws Ws.Spec

def toks (s : String) : List String := (s.splitOn ",").filter (fun t => t != "" && t != "-")
def joinItems (xs : List String) : String := if xs.isEmpty then "-" else ";".intercalate xs

def parseMaskList (s : String) : List Mask := if s == "" then [] else (s.splitOn ",").map parseMask

/-- UTF8Reader: read with buffers of size k until an error; items n,err,accepted,valid -/
def u8ReadAll (u : Utf8Rd) (s : Src) (k : Nat) : Nat → List String → Utf8Rd × List String
  | 0, acc => (u, acc.reverse)
  | fuel + 1, acc =>
    match u.read s k with
    | none => (u, ("PANIC" :: acc).reverse)
    | some (n, bad, fin, u', s') =>
      let err := if bad then "utf8" else match fin with | none => "nil" | some .eof => "eof" | some .fail => "fail"
      let item := s!"{n},{err},{u'.accepted},{if u'.valid then 1 else 0}"
      if err == "nil" then u8ReadAll u' s' k fuel (item :: acc) else (u', (item :: acc).reverse)

def flScript (w : FlWr) (ftail : Bytes) (script : String) : FlWr × List String :=
  (script.splitOn ";").foldl (fun (st : FlWr × List String) it =>
    let (w, res) := st
    if it == "" || it == "-" then st
    else if it.startsWith "w" then
      match ((it.drop 1).toString).splitOn "/" with
      | [d, sp] =>
        let sizes := if sp == "" then [] else (sp.splitOn "+").map natOr
        let (e, w') := w.write (splitBy (hexOrEmpty d) sizes)
        (w', res ++ [flErrStr e])
      | _ => (w, res ++ ["?"])
    else
      -- the scripted compressor has no Close: Flush writes the tail, Close only checks it
      let (e, w') := w.flush (if it == "f" && !ftail.isEmpty then [ftail] else [])
      (w', res ++ [flErrStr e])) (w, [])

def runHist (w : Wr) (e : Env) : List String → Option (Wr × Env)
  | [] => some (w, e)
  | t :: ts => match wrOp w e t with | none => none | some (_, w', e') => runHist w' e' ts

def c18rst (a : List String) (obs : String) : String × String :=
  let same := getF obs "same"
  let verdict := if obs.startsWith "PANIC" then "bad:panic" else if same == "1" then "ok" else "bad:reset-instance-differs-from-fresh"
  match a with
  | "w" :: sd :: op :: ctor :: ext :: fail :: _seed :: hist :: sd2 :: op2 :: after :: [] =>
    let hm := parseMaskList (getF obs "hmasks"); let am := parseMaskList (getF obs "masks")
    let e : Env := { dst := { failAt := if fail == "-" then none else some (natOr fail) }, masks := hm }
    match mkWr (sd == "C") (natOr op) ctor with
    | none => ("PANIC", verdict)
    | some w0 =>
      let w0 := { w0 with ext := parseExt ext }
      match runHist w0 e (toks hist) with
      | none => ("PANIC", verdict)
      | some (w1, _) =>
        match w1.reset (sd2 == "C") (natOr op2) with
        | none => ("PANIC", verdict)
        | some w2 =>
          let ia := wrRun w2 { masks := am } (toks after) []
          match newWriterSize (sd2 == "C") (natOr op2) w2.size with
          | none => ("PANIC", verdict)
          | some f =>
            let ib := wrRun f { masks := am } (toks after) []
            let sa := joinItems ia; let sb := joinItems ib
            (s!"same={if sa == sb then 1 else 0} size={w2.size} fsize={f.size} a={sa} b={sb} hmasks={getF obs "hmasks"} masks={getF obs "masks"}",
              if getF obs "size" != getF obs "fsize" then "skip" else verdict)
  | "ro" :: sd :: op :: ctor :: ext :: fail :: _seed :: hist :: op2 :: after :: [] =>
    let hm := parseMaskList (getF obs "hmasks"); let am := parseMaskList (getF obs "masks")
    let e : Env := { dst := { failAt := if fail == "-" then none else some (natOr fail) }, masks := hm }
    match mkWr (sd == "C") (natOr op) ctor with
    | none => ("PANIC", verdict)
    | some w0 =>
      let w0 := { w0 with ext := parseExt ext }
      match runHist w0 e (toks hist) with
      | none => ("PANIC", verdict)
      | some (w1, e1) =>
        let w2 := w1.resetOp (natOr op2)
        let ia := wrRun w2 { dst := { e1.dst with failAt := none }, masks := am } (toks after) []
        match newWriterSize (sd == "C") (natOr op2) w2.size with
        | none => ("PANIC", verdict)
        | some f =>
          let f := { f with ext := w1.ext, noFlush := w1.noFlush }
          let ib := wrRun f { masks := am } (toks after) []
          let sa := joinItems ia; let sb := joinItems ib
          (s!"same={if sa == sb then 1 else 0} size={w2.size} fsize={f.size} a={sa} b={sb} hmasks={getF obs "hmasks"} masks={getF obs "masks"}",
            if fail != "-" then "skip" else verdict)   -- ResetOp after a destination error: left open
  | "pool" :: sd :: op :: n :: fail :: _seed :: hist :: after :: [] =>
    let am := parseMaskList (getF obs "masks")
    match getWriter (sd == "C") (natOr op) (natOr n) with
    | none => ("PANIC", verdict)
    | some w2 =>
      let _ := hist; let _ := fail
      -- PutWriter/GetWriter: the model says GetWriter always hands out a fresh writer of that class
      let ia := wrRun w2 { masks := am } (toks after) []
      match newWriterSize (sd == "C") (natOr op) w2.size with
      | none => ("PANIC", verdict)
      | some f =>
        let ib := wrRun f { masks := am } (toks after) []
        let sa := joinItems ia; let sb := joinItems ib
        (s!"same={if sa == sb then 1 else 0} size={w2.size} fsize={f.size} a={sa} b={sb} hmasks={getF obs "hmasks"} masks={getF obs "masks"}",
          if getF obs "size" != getF obs "fsize" then "skip" else verdict)
  | "pool2" :: sd :: op :: ctor :: fail :: _seed :: hist :: sd2 :: n :: after :: [] =>
    let hm := parseMaskList (getF obs "hmasks"); let am := parseMaskList (getF obs "masks")
    let e : Env := { dst := { failAt := if fail == "-" then none else some (natOr fail) }, masks := hm }
    match mkWr (sd == "C") (natOr op) ctor with
    | none => ("PANIC", verdict)
    | some w0 =>
      match runHist w0 e (toks hist) with
      | none => ("PANIC", verdict)
      | some (w1, _) =>
        -- PutWriter: Reset(nil, 0, 0), then filed under Size() if that is one of the pool's classes
        let cls := poolCeil (natOr n)
        let isClass (x : Nat) : Bool := [128, 256, 512, 1024, 2048, 4096, 8192, 16384, 32768, 65536].contains x
        let pooled : Option Wr := match w1.reset false 0 with
          | some wp => if isClass wp.size && wp.size == cls then some wp else none
          | none => none
        let got : Option Wr := match pooled with
          | some wp => wp.reset (sd2 == "C") (natOr op)
          | none => getWriter (sd2 == "C") (natOr op) (natOr n)
        match got with
        | none => ("PANIC", verdict)
        | some w2 =>
          let ia := wrRun w2 { masks := am } (toks after) []
          match newWriterSize (sd2 == "C") (natOr op) w2.size, getWriter (sd2 == "C") (natOr op) (natOr n) with
          | some f, some fresh =>
            let ib := wrRun f { masks := am } (toks after) []
            let sa := joinItems ia; let sb := joinItems ib
            let osize := natOr (getF obs "size")
            (s!"same={if sa == sb then 1 else 0} size={w2.size} fsize={f.size} a={sa} b={sb} hmasks={getF obs "hmasks"} masks={getF obs "masks"}",
              -- what the pool hands out for class n is never smaller than a new writer of that class
              if osize < fresh.size then "bad:pooled-writer-smaller-than-a-new-one-of-the-requested-class"
              else if getF obs "size" != getF obs "fsize" then "skip" else verdict)
          | _, _ => ("PANIC", verdict)
  | ["u8", h, k, af, k2] =>
    let (u1, _) := u8ReadAll {} (srcOf (hexOrEmpty h) (natOr k) "E") 16 10000 []
    let _ := u1
    let u2 : Utf8Rd := {}          -- UTF8Reader.Reset: state, codep and accepted cleared
    let (_, ia) := u8ReadAll u2 (srcOf (hexOrEmpty af) (natOr k2) "E") 7 10000 []
    let (_, ib) := u8ReadAll {} (srcOf (hexOrEmpty af) (natOr k2) "E") 7 10000 []
    let sa := s!"{u2.accepted},{if u2.valid then 1 else 0}|" ++ ";".intercalate ia
    let sb := "0,1|" ++ ";".intercalate ib
    (s!"same={if sa == sb then 1 else 0} a={sa} b={sb}", verdict)
  | ["cr", _m1, _h, m2, af, k] =>
    let out := crdLoop ⟨parseMask m2, 0⟩ (srcOf (hexOrEmpty af) (natOr k) "E") #[1000] 0 []
    let hexPart := (out.splitOn " ").headD ""
    let hexPart := if hexPart == "" then "-" else hexPart
    (s!"same=1 a={hexPart} b={hexPart}", verdict)
  | ["cwr", _m1, _h, m2, af] =>
    let p := hexOrEmpty af
    let out := match (CipherWr.write ⟨parseMask m2, 0⟩ p p.length).1 with | some o => Bytes.toHex o | none => "PANIC"
    (s!"same=1 a={out} b={out}", verdict)
  | ["fw", ft, fa, hist, after] =>
    let ftail := hexOrEmpty ft
    let failAt : Option Nat := if fa.startsWith "-" then none else some (natOr fa)
    let (w1, _) := flScript { cbuf := { dst := { failAt := failAt } } } ftail hist
    let (w2, ra) := flScript (w1.reset {}) ftail after
    let (w3, rb) := flScript {} ftail after
    let sa := ",".intercalate ra ++ "/" ++ Bytes.toHex w2.cbuf.dst.bytes
    let sb := ",".intercalate rb ++ "/" ++ Bytes.toHex w3.cbuf.dst.bytes
    (s!"same={if sa == sb then 1 else 0} a={sa} b={sb}", verdict)
  | "fwreal" :: _ => (obs, verdict)      -- compress/flate's output is not modelled: differential only
  | "fr" :: _ => (obs, verdict)
  | _ => ("BADOP", "skip")

end Ws.Driver
