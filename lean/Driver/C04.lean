import Driver.Util
import Driver.C02
import Driver.C06
import WsVerif.Model.Helper
import WsVerif.Spec.Header
import WsVerif.Spec.Cipher
import WsVerif.Spec.Utf8
import WsVerif.Spec.Check
namespace Ws.Driver
open Ws Ws.Spec

def rerrStr : RErr → String
  | .eof => "eof" | .ueof => "ueof" | .fail => "fail"
  | .noAdvance => "noadvance" | .tooLarge => "toolarge" | .utf8 => "utf8"
  | .proto e => "proto:" ++ e.goName
  | .hdr e => hdrErrStr e
  | .closed c r => s!"closed:{c}:{Bytes.toHex r}"
  | .handler "dest" => "dfail"
  | .handler t => "other:" ++ t
  | .fault => "PANIC"

def oerrStr : Option RErr → String
  | none => "nil"
  | some e => rerrStr e

def msgsStr (ms : List (Nat × Bytes)) : String :=
  if ms.isEmpty then "-" else ",".intercalate (ms.map fun (o, p) => s!"{o}:{Bytes.toHex p}")

def writesStr2 (d : Dst) : String :=
  if d.writes.isEmpty then "-" else ",".intercalate (d.writes.map Bytes.toHex)

def consumed (total : Nat) (s : Src) : Nat := total - s.bytes.length

def c04rm (a : List String) (_obs : String) : String :=
  match a with
  | [st, hex, k, fin] =>
    let s := mkSrc2 hex k fin
    let (ms, e, s') := readMessage (natOr st) s
    if e == some .utf8 then s!"{msgsStr ms} {oerrStr e} -" else
    s!"{msgsStr ms} {oerrStr e} {consumed s.bytes.length s'}"
  | _ => "BADOP"

def c04rdd (a : List String) (obs : String) : String :=
  match a with
  | [st, want, hex, k, fin, _seed] =>
    let s := mkSrc2 hex k fin
    let masks := parseMasks obs
    let mstr := (obs.splitOn " masks=").getD 1 ""
    let w := if want == "T" then 1 else if want == "B" then 2 else 3
    -- the Text/Binary helpers exist per side only (ReadClientText, …): no other state bit reaches them
    let stN := if want == "D" then natOr st else natOr st % 4
    let (p, op, e, s', cx) := readData stN w ProtoErr.textBytes s { masks } (s.fuel + 4)
    let op' := if want == "D" then op else if e.isSome then 0 else (if want == "T" then 1 else 2)
    -- Go returns nil payload together with most errors; ReadAll errors keep the partial payload
    let posS := if e == some .utf8 then "-" else toString (consumed s.bytes.length s')
    s!"{op'}:{Bytes.toHex p} {oerrStr e} {posS} @{writesStr2 cx.env.dst} masks={mstr}"
  | _ => "BADOP"

structure RdrCfg where
  skip : Bool := false
  utf8 : Bool := false
  max : Nat := 0
  ext : Bool := false
  inter : Bool := false
  lazy : Nat := 0        -- 1: handler reads nothing, 2: handler reads one byte

def parseCfg (s : String) : RdrCfg :=
  (s.splitOn ",").foldl (fun c t =>
    if t == "skip" then { c with skip := true }
    else if t == "utf8" then { c with utf8 := true }
    else if t.startsWith "max:" then { c with max := natOr (t.drop 4).toString }
    else if t == "ext" then { c with ext := true }
    else if t == "inter" then { c with inter := true }
    else if t == "interlazy" then { c with lazy := 1 }
    else if t == "interone" then { c with lazy := 2 }
    else c) {}

def collectCb : Callback := fun h r s cx =>
  let (chunks, e, r', s', cx') := Rd.pull false 512 none (pullFuel s) r s cx []
  if e = .eof then ⟨none, r', s', { cx' with msgs := cx'.msgs ++ [(h.op, chunks.flatten)] }⟩
  else ⟨some e, r', s', cx'⟩

/-- handlers that leave (most of) the control payload unread -/
def lazyCb (one : Bool) : Callback := fun h r s cx =>
  if !one then ⟨none, r, s, { cx with msgs := cx.msgs ++ [(h.op, [])] }⟩
  else match r.frameRead s 1 with
    | none => ⟨some .fault, r, s, cx⟩
    | some (bytes, n, _, r', s') => ⟨none, r', s', { cx with msgs := cx.msgs ++ [(h.op, bytes.take n)] }⟩

/-- `dead`: the reader has reported ErrInvalidUTF8 earlier in the script; from then on the bytes handed out
    alongside later results and the transport position are not compared (see the harness). -/
def rdrRunD (total : Nat) (cb : Option Callback) (hasExt : Bool) (dead : Bool) :
    Rd → Src → Ctx → List String → List String → List String × Src × Ctx × Bool
  | _, s, cx, [], acc => (acc.reverse, s, cx, dead)
  | r, s, cx, t :: ts, acc =>
    let mask (tag item : String) : String := if dead then tag ++ ",after-utf8" else item
    match t.splitOn ":" with
    | ["nf"] =>
      let (h, e, r', s', cx') := r.nextFrame s cx cb
      let item := match e, h with
        | some e, _ => "nf," ++ rerrStr e
        | none, some h => "nf," ++ hdrStr h
        | none, none => "nf,PANIC"
      rdrRunD total cb hasExt (dead || e == some .utf8) r' s' cx' ts (mask "nf" item :: acc)
    | ["r", n] =>
      match r.read s cx (natOr n) cb with
      | none => (("PANIC" :: acc).reverse, s, cx, dead)
      | some (bytes, m, e, r', s', cx') =>
        rdrRunD total cb hasExt (dead || e == some .utf8) r' s' cx' ts
          (mask "r" (if m > natOr n then s!"r,BADN{m},{oerrStr e}"
                     else s!"r,{Bytes.toHex ((bytes ++ List.replicate (m - bytes.length) 0).take m)},{oerrStr e}") :: acc)
    | ["ra"] =>
      let (p, e, r', s', cx') := readAllRd r s cx cb
      rdrRunD total cb hasExt (dead || e == some .utf8) r' s' cx' ts (mask "ra" s!"ra,{Bytes.toHex p},{oerrStr e}" :: acc)
    | ["d"] =>
      let (e, r', s', cx') := r.discard s cx cb (pullFuel s)
      rdrRunD total cb hasExt (e == some .utf8) r' s' cx' ts (s!"d,{oerrStr e}" :: acc)
    | ["st"] =>
      let c := if hasExt then b2s r.compressed else "-"
      rdrRunD total cb hasExt dead r s cx ts (mask "st" s!"st,{r.state},{c},{consumed total s}" :: acc)
    | _ => rdrRunD total cb hasExt dead r s cx ts ("BADOP" :: acc)

def c04rdr (a : List String) (_obs : String) : String :=
  match a with
  | st :: cfg :: hex :: k :: fin :: script =>
    let s := mkSrc2 hex k fin
    let c := parseCfg cfg
    let r : Rd := { state := natOr st, skipCheck := c.skip, checkUTF8 := c.utf8, maxFrame := c.max, ext := c.ext }
    let cb := if c.inter then some collectCb else if c.lazy == 1 then some (lazyCb false) else if c.lazy == 2 then some (lazyCb true) else none
    let (items, s', cx, dead) := rdrRunD s.bytes.length cb c.ext false r s {} script []
    s!"{";".intercalate items} inter={msgsStr cx.msgs} {if dead then "-" else toString (consumed s.bytes.length s')}"
  | _ => "BADOP"

end Ws.Driver
