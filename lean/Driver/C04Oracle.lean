import Driver.C04
import WsVerif.Spec.Stream
namespace Ws.Driver
open Ws Ws.Spec

/-- frames of a parsed stream grouped into units, each with the index of its first frame. -/
def unitsIdx (us : List MUnit) : List (MUnit × Nat) :=
  (us.foldl (fun (acc : List (MUnit × Nat) × Nat) u => (acc.1 ++ [(u, acc.2)], acc.2 + u.nframes)) ([], 0)).1

structure Parsed where
  frames : List SFrame
  tail : Tail
  us : List (MUnit × Nat)
  fb : Option Nat
  /-- index of the first frame over the size limit, when that is what `fb` points at -/
  big : Option Nat := none

/-- `max > 0`: a frame announcing more than `max` bytes is an offending frame too (C05/C15). A cut
    trailing frame over the limit is kept as a (partial) frame so that it is judged as offending —
    the reader must refuse it from its header alone. `skip`: SkipHeaderCheck, only the limit counts. -/
def parseFor (side : Nat) (ext : Bool) (bs : Bytes) (max : Nat := 0) (skip : Bool := false) : Parsed :=
  let (fs0, tl0) := parseStream (bs.length + 2) 0 bs []
  let (fs, tl) := match tl0 with
    | .cutPayload f _ => if max > 0 ∧ f.h.len > max then (fs0 ++ [f], Tail.clean) else (fs0, tl0)
    | _ => (fs0, tl0)
  let fbRule := if skip then firstBadExt ext 0 fs else firstBad side ext false 0 fs
  let fbBig := firstBig max 0 fs
  let fb := optMin fbRule fbBig
  { frames := fs, tail := tl, us := unitsIdx (units fs none []), fb := fb,
    big := if fb == fbBig && fbRule != fb then fbBig else none }

def isProto (e : String) : Bool := e.startsWith "proto:"
def isIoErr (e : String) : Bool := e == "eof" || e == "ueof" || e == "fail"

/-- bytes of a unit's data payload coming from frames with index < lim -/
def payloadBefore (p : Parsed) (first n lim : Nat) : Bytes :=
  (((p.frames.drop first).take (min n (lim - first))).filter (fun f => !isCtl f.h.op)).map (·.plain) |>.flatten

def intersBefore (p : Parsed) (first n lim : Nat) : List (Nat × Bytes) :=
  (((p.frames.drop first).take (min n (lim - first))).drop 1 |>.filter (fun f => isCtl f.h.op)).map fun f => (f.h.op, f.plain)

/-- plain bytes present of a frame whose payload was cut -/
def tailPlain : Tail → Bytes × Bool
  | .cutPayload f _ => (f.plain, isCtl f.h.op)
  | _ => ([], false)

def tailOk : Tail → Bool
  | .clean => true
  | _ => false

/-- a leading "b" only says the harness source also has a bufio-style Discard method -/
def normFin (fin : String) : String := if fin.startsWith "b" then (fin.drop 1).toString else fin

/-- how the stream's end must be reported when a unit is cut or absent -/
def endVerdict (p : Parsed) (midUnit : Bool) (fin : String) (err : String) : Option String :=
  if (match p.tail with | .badLength _ => true | _ => false) then
    (if err == "msb" then none else some "length-with-top-bit-set-not-refused")
  else
  if err == "nil" then some "success-reported-for-a-cut-stream"
  else if !isIoErr err then some s!"unexpected-error-class-{err}"
  else
    let cutPayload := match p.tail with | .cutPayload _ _ => true | _ => false
    if fin.startsWith "E" && err == "eof" && (cutPayload || (midUnit && tailOk p.tail)) then
      some "cut-stream-reported-as-clean-EOF"
    else none

/-- With a transport that hands over its last chunk TOGETHER with a failure ("Fd"), reporting that
    failure for a message that reaches into the last chunk is legitimate. -/
def failOk (fin k : String) (total stop : Nat) (err : String) : Bool :=
  let kk := natOr k
  let lastStart := if kk == 0 || total == 0 then 0 else ((total - 1) / kk) * kk
  fin == "Fd" && err == "fail" && stop > lastStart

/-- ReadMessage oracle. -/
def rmOracle (a : List String) (obs : String) : String :=
  match a, obs.splitOn " " with
  | [st, hex, kS, fin], [ms, err, pos] =>
    let fin := normFin fin
    let bs := hexOr hex
    let p := parseFor (natOr st) false bs
    match p.us with
    | [] =>
      -- no complete frame at all
      match p.fb with
      | some _ => if isProto err then "ok" else "bad:expected-protocol-error"
      | none => if bs.isEmpty then (if err == "nil" then "bad:success-on-empty-stream" else "ok")
                else (endVerdict p false fin err).elim "ok" ("bad:" ++ ·)
    | (u, first) :: _ =>
      let badHere := match p.fb with | some i => decide (i < first + u.nframes) | none => false
      if badHere then
        let i := p.fb.getD 0
        let exp := msgsStr (intersBefore p first u.nframes i)
        if !isProto err && !(err == "msb") then "bad:expected-protocol-error-at-first-offending-frame"
        else if ms != exp && !(exp.startsWith ms) then s!"bad:deliveries-before-offending-frame"
        else "ok"
      else if !u.complete then
        (endVerdict p true fin err).elim "ok" ("bad:" ++ ·)
      else if u.op == 1 && !wfUtf8 u.payload then
        -- (reporting the transport's own failure, when it came together with the last bytes, is a report too:
        --  what must not happen is the invalid text handed over with no error)
        (if err == "utf8" || failOk fin kS bs.length u.stop err then "ok" else "bad:invalid-utf8-text-not-rejected")
      else
        let exp := msgsStr (u.inter ++ [(u.op, u.payload)])
        if failOk fin kS bs.length u.stop err then "ok"
        else if err != "nil" then s!"bad:valid-message-refused-{err}"
        else if ms != exp then "bad:message-not-the-concatenation-of-fragments"
        else if natOr pos != u.stop then "bad:consumed-beyond-the-message"
        else "ok"
  | _, _ => "bad:format"

/-- expected automatic reply to a control frame (bytes on the wire), and the masks left. -/
def replyFor (client : Bool) (op : Nat) (payload : Bytes) (masks : List Mask) : Bytes × List Mask × Option String :=
  let frame (rop : Nat) (pl : Bytes) (draw : Bool) : Bytes × List Mask :=
    let m := if client && draw then masks.headD Mask.zero else Mask.zero
    let h : Header := { fin := true, rsv := 0, op := rop, masked := client, mask := m, len := pl.length }
    (rfcEncode h ++ (if client then xorSpec pl m 0 else pl), if client && draw then masks.drop 1 else masks)
  if op == 9 then
    let (b, ms) := frame 10 payload (!payload.isEmpty)
    (b, ms, none)
  else if op == 10 then ([], masks, none)
  else -- close
    if payload.isEmpty then
      let (b, ms) := frame 8 [] false
      (b, ms, some "closed:1005:-")
    else if payload.length < 2 then
      -- a 1-byte close payload parses as "no code": code 0 is not in use -> protocol error
      let (b, ms) := frame 8 (newCloseFrameBody 1002 ProtoErr.statusCodeNotInUse.textBytes |>.getD []) true
      (b, ms, some "proto:")
    else
      let code := payload.getD 0 0 * 256 + payload.getD 1 0
      let reason := payload.drop 2
      if decide (closeOk code) ∧ wfUtf8 reason then
        let (b, ms) := frame 8 (payload.take 2) true
        (b, ms, some s!"closed:{code}:{Bytes.toHex reason}")
      else if code ≥ 5000 ∨ (1012 ≤ code ∧ code ≤ 1014) then ([], masks, some "open")   -- left open by the property
      else ([], masks, some "proto:")

/-- Judge the handling of one control frame given what was written and the error reported
    (used by the standalone ControlHandler oracle of C08). -/
def judgeCtl (client : Bool) (op : Nat) (payload : Bytes) (masks : List Mask) (err : String) (wrBytes : Bytes) : String :=
  if !(op == 8 || op == 9 || op == 10) then
    (if err == "notcontrol" && wrBytes.isEmpty then "ok" else "bad:non-control-opcode-not-refused")
  else
  let (rb, _, stop) := replyFor client op payload masks
  match stop with
  | none => if err != "nil" then s!"bad:handler-failed-{err}" else if wrBytes != rb then "bad:reply-differs-from-RFC" else "ok"
  | some "open" => "ok"
  | some "proto:" =>
    if !isProto err then "bad:invalid-close-not-reported-as-protocol-error" else
    match parseStream (wrBytes.length + 2) 0 wrBytes [] with
    | ([f], .clean) =>
      let pl := f.plain
      let code := pl.getD 0 0 * 256 + pl.getD 1 0
      if f.h.op != 8 || !f.h.fin || f.h.len > 125 || f.h.rsv != 0 then "bad:protocol-error-reply-not-a-valid-close-frame"
      else if f.h.masked != client then "bad:reply-masked-iff-client-violated"
      else if client && f.h.mask != masks.headD Mask.zero then "bad:reply-mask-not-the-drawn-key"
      else if !(code == 1002 || code == 1007) || !wfUtf8 (pl.drop 2) then "bad:protocol-error-reply-payload"
      else "ok"
    | _ => "bad:protocol-error-reply-not-a-single-frame"
  | some c =>
    if wrBytes != rb then "bad:close-reply-differs" else if err != c then s!"bad:close-not-reported-as-{c}" else "ok"

/-- ReadData-family oracle: walks the units of the stream. -/
def rddOracle (a : List String) (obs : String) : String :=
  match a with
  | [st, want, hex, kS, fin, _] =>
    let fin := normFin fin
    let head := (obs.splitOn " masks=").headD ""
    match head.splitOn " " with
    | [res, err, pos, wr] =>
      -- ReadClientText & co. exist per side only: their state is the side bit
      let side := if want == "D" then natOr st else natOr st % 4
      let client := side / 2 % 2 == 1
      let bs := hexOr hex
      let p := parseFor side false bs
      let masks := parseMasks obs
      let got := (res.splitOn ":")
      let gotOp := natOr (got.headD "0")
      let gotP := hexOr (got.getD 1 "-")
      let wrBytes := if wr == "@-" then [] else (((wr.drop 1).toString.splitOn ",").map hexOr).flatten
      let wantOp (o : Nat) : Bool := if want == "T" then o == 1 else if want == "B" then o == 2 else (o == 1 || o == 2)
      -- walk
      let rec walk (us : List (MUnit × Nat)) (replies : Bytes) (masks : List Mask) (fuel : Nat) : String :=
        match fuel, us with
        | 0, _ => "bad:oracle-fuel"
        | _, [] =>
          let (tp, tctl) := tailPlain p.tail
          if wrBytes != replies then "bad:control-replies-differ"
          else if !gotP.isEmpty && (tctl || err == "nil" || gotP != tp.take gotP.length) then "bad:payload-returned-with-no-wanted-message"
          else match p.fb with
            | some _ => if isProto err || err == "msb" then "ok" else "bad:expected-protocol-error"
            | none => if tailOk p.tail then (if isIoErr err then "ok" else s!"bad:end-of-stream-reported-as-{err}")
                      else (endVerdict p false fin err).elim "ok" ("bad:" ++ ·)
        | fuel + 1, (u, first) :: rest =>
          let badHere := match p.fb with | some i => decide (i < first + u.nframes) | none => false
          let lim := if badHere then p.fb.getD 0 else first + u.nframes
          if isCtl u.op then
            if badHere then
              (if wrBytes != replies then "bad:control-replies-differ" else if isProto err then "ok" else "bad:expected-protocol-error")
            else
              let (rb, ms, stop) := replyFor client u.op u.payload masks
              match stop with
              | none => walk rest (replies ++ rb) ms fuel
              | some "open" => "ok"
              | some "proto:" =>
                -- reply must be a close frame with 1002 (or 1007) that the peer's checks accept
                if !isProto err then "bad:invalid-close-not-reported-as-protocol-error"
                else
                  let extra := wrBytes.drop replies.length
                  if wrBytes.take replies.length != replies then "bad:control-replies-differ" else
                  match parseStream (extra.length + 2) 0 extra [] with
                  | ([f], .clean) =>
                    let pl := f.plain
                    let code := pl.getD 0 0 * 256 + pl.getD 1 0
                    if f.h.op != 8 || !f.h.fin || f.h.masked != client || f.h.len > 125 || f.h.rsv != 0 then "bad:protocol-error-reply-not-a-valid-close-frame"
                    else if client && f.h.mask != masks.headD Mask.zero then "bad:reply-mask-not-the-drawn-key"
                    else if !(code == 1002 || code == 1007) || !wfUtf8 (pl.drop 2) then "bad:protocol-error-reply-payload"
                    else "ok"
                  | _ => "bad:protocol-error-reply-not-a-single-frame"
              | some c =>
                if wrBytes != replies ++ rb then "bad:close-reply-differs"
                else if err != c then s!"bad:close-not-reported-as-{c}"
                else "ok"
          else
            -- data unit: intermediates before `lim` are answered
            let inters := intersBefore p first u.nframes lim
            let (replies', masks', bad) := inters.foldl (fun (acc : Bytes × List Mask × Bool) (cf : Nat × Bytes) =>
              let (rb, ms, stop) := replyFor client cf.1 cf.2 acc.2.1
              (acc.1 ++ rb, ms, acc.2.2 || stop.isSome)) (replies, masks, false)
            -- a close frame inside a fragmented message ends the read there: every control frame up to and
            -- including it is answered, and the close is what the caller is told (valid closes; invalid ones
            -- are left to the model check)
            let upTo := inters.foldl (fun (acc : Bytes × List Mask × Option String) (cf : Nat × Bytes) =>
              if acc.2.2.isSome then acc else
              let (rb, ms, stop) := replyFor client cf.1 cf.2 acc.2.1
              (acc.1 ++ rb, ms, stop)) (replies, masks, none)
            if bad then
              (match upTo.2.2 with
               | some c =>
                 if c.startsWith "closed:" then
                   (if badHere then "skip"
                    else if wrBytes != upTo.1 then "bad:close-reply-differs"
                    else if err != c then s!"bad:close-not-reported-as-{c.take 24}"
                    else "ok")
                 else "skip"
               | none => "skip")
            else if badHere then
              if !(isProto err || err == "msb") then "bad:expected-protocol-error-at-first-offending-frame"
              else if wrBytes != replies' then "bad:control-replies-differ"
              else if gotP != (payloadBefore p first u.nframes lim).take gotP.length then "bad:delivered-bytes-of-or-after-the-offending-frame"
              else "ok"
            else if !u.complete then
              let (tp, tctl) := tailPlain p.tail
              let avail := u.payload ++ (if tctl then [] else tp)
              -- replies may stop short when the read ended early: invalid text detected before the cut, or a
              -- transport that delivered its last bytes together with a failure (the frame they belong to
              -- is then not handled)
              let early := (u.op == 1 && err == "utf8") || (fin == "Fd" && err == "fail")
              if (early && wrBytes != replies'.take wrBytes.length) || (!early && wrBytes != replies') then
                (if wrBytes.length > replies'.length then "bad:reply-written-for-a-cut-control-frame" else "bad:control-replies-differ")
              else if gotP != avail.take gotP.length && wantOp u.op then "bad:delivered-bytes-not-from-the-message"
              else (endVerdict p true fin err).elim "ok" ("bad:" ++ ·)
            else if !wantOp u.op then walk rest replies' masks' fuel
            else if u.op == 1 && !wfUtf8 u.payload then
              (if failOk fin kS bs.length u.stop err then "ok"
               else if err != "utf8" then "bad:invalid-utf8-text-not-rejected"
               else if wrBytes != replies'.take wrBytes.length then "bad:control-replies-differ" else "ok")
            else if failOk fin kS bs.length u.stop err then "ok"
            else if wrBytes != replies' then "bad:control-replies-differ"
            else if err != "nil" then s!"bad:valid-message-refused-{err}"
            else if gotP != u.payload then "bad:message-not-the-concatenation-of-fragments"
            else if want == "D" && gotOp != u.op then "bad:opcode"
            else if natOr pos != u.stop then "bad:consumed-beyond-the-message"
            else "ok"
      walk p.us [] masks (p.us.length + 2)
    | _ => "bad:format"
  | _ => "bad:format"

end Ws.Driver

namespace Ws.Driver
open Ws Ws.Spec

/-- Oracle for raw Reader scripts made of per-unit groups `nf (r:<n>)* (ra|d) st`: what is
    delivered for the j-th group must come from the j-th unit of the stream — never a byte of an
    offending frame or of anything after it, the whole payload when the unit is valid and complete
    and the group reads to its end; interleaved controls go to OnIntermediate in order. -/
def rdrOracle (a : List String) (obs : String) : String :=
  match a with
  | st :: cfg :: hex :: kS :: fin :: script =>
    let fin := normFin fin
    let total := (hexOr hex).length
    let c := parseCfg cfg
    -- with SkipHeaderCheck the rule set is off: streams breaking a rule are judged by the model only
    let p := parseFor (natOr st) c.ext (hexOr hex) c.max c.skip
    let ruleBad := firstBad (natOr st) c.ext false 0 p.frames
    -- (… unless the first thing wrong is the attached extension's own rule, which SkipHeaderCheck does not lift)
    let extBad := firstBadExt c.ext 0 p.frames
    let before (i : Nat) (o : Option Nat) : Bool := match o with | some j => decide (i < j) | none => true
    if c.skip && (match ruleBad with
        | some i => before i p.big && before i extBad
        | none => false) then "skip" else
    match obs.splitOn " inter=" with
    | [itemsS, rest] =>
      let items := itemsS.splitOn ";"
      let interObs := (rest.splitOn " ").headD ""
      if items.length != script.length && !(items.getLast? == some "PANIC") then "bad:format" else
      if items.contains "PANIC" then "bad:panic" else
      -- split items into groups starting at each "nf"
      let groups : List (List String) := (items.foldl (fun (acc : List (List String)) it =>
        if it.startsWith "nf," then acc ++ [[it]] else
        match acc.reverse with
        | [] => [[it]]
        | g :: gs => (gs.reverse) ++ [g ++ [it]]) [])
      let rec go (gs : List (List String)) (us : List (MUnit × Nat)) (inters : List (Nat × Bytes)) (dead : Bool) (fuel : Nat) : String :=
        match fuel, gs with
        | 0, _ => "bad:oracle-fuel"
        | _, [] => if c.inter && interObs != msgsStr inters && !dead then "bad:intermediate-controls-differ" else "ok"
        | fuel + 1, g :: gs' =>
          -- what the caller was handed up to and including the first refusal (what it does after an
          -- error is outside the property: the connection has to be failed)
          let refusedAt := g.findIdx? (fun it =>
            let e := (it.splitOn ",").getLast?.getD ""
            !it.startsWith "st," && (isProto e || e == "msb" || e == "toolarge"))
          let gLive := match refusedAt with | some i => g.take (i + 1) | none => g
          let delivered : Bytes := (gLive.filter (fun it => it.startsWith "r," || it.startsWith "ra,")).map
            (fun it => hexOr ((it.splitOn ",").getD 1 "-")) |>.flatten
          let errs := g.filter (fun it => !it.startsWith "st,") |>.map (fun it =>
            let f := it.splitOn ","
            if it.startsWith "nf," && f.length > 2 then "nil" else f.getLast?.getD "")
          let nfErr := ((g.headD "").splitOn ",").length == 2     -- "nf,<err>"
          if dead then "ok"   -- the caller went on after an error: outside the property (the connection must be failed)
          else
          match us with
          | [] =>
            -- no complete unit left: a cut or bad trailing frame, or clean end
            let (tp, tctl) := tailPlain p.tail
            if !nfErr && tailOk p.tail && p.fb.isNone then "bad:frame-reported-on-an-exhausted-stream"
            else if delivered != tp.take delivered.length && !tctl then "bad:delivered-bytes-not-from-the-stream"
            else if errs.all (· == "nil") then "bad:no-error-at-end-of-stream"
            else go gs' [] inters true fuel
          | (u, first) :: us' =>
            let badHere := match p.fb with | some i => decide (i < first + u.nframes) | none => false
            let lim := if badHere then p.fb.getD 0 else first + u.nframes
            let avail := payloadBefore p first u.nframes lim
            let ints := intersBefore p first u.nframes lim
            if badHere then
              let sizeHere := p.big == some lim
              -- position reported by this group's `st` (taken right after the refusal)
              let stPos := (g.find? (fun x => x.startsWith "st,")).map fun x => natOr ((x.splitOn ",").getLast?.getD "0")
              let hdrEnd := match p.frames[lim]? with | some f => f.start + rfcSize f.h | none => 0
              -- nothing was attempted between the refusal and that `st`
              let preErrs := (g.takeWhile (fun x => !x.startsWith "st,")).map (fun it =>
                let f := it.splitOn ","
                if it.startsWith "nf," && f.length > 2 then "nil" else f.getLast?.getD "")
              let clean := (preErrs.filter (· != "nil")).length == 1 && preErrs.getLast?.getD "nil" != "nil"
              if !(errs.any fun e => isProto e || e == "msb" || (sizeHere && e == "toolarge")) then
                (if sizeHere then "bad:frame-over-MaxFrameSize-not-refused" else "bad:offending-frame-not-rejected")
              else if delivered != avail.take delivered.length then "bad:delivered-bytes-of-or-after-the-offending-frame"
              else if sizeHere && clean && stPos.isSome && stPos != some hdrEnd then "bad:payload-of-oversized-frame-was-read"
              else go gs' us' (inters ++ ints) true fuel
            else if nfErr then "bad:valid-frame-refused"
            else if !u.complete then
              let (tp, tctl) := tailPlain p.tail
              let avail' := avail ++ (if tctl then [] else tp)
              if delivered != avail'.take delivered.length then "bad:delivered-bytes-not-from-the-message"
              else if errs.all (· == "nil") && (g.any (fun x => x.startsWith "ra,") || g.any (fun x => x.startsWith "d,")) then "bad:cut-message-read-without-error"
              else if fin.startsWith "E" && (errs.getLast?.getD "") == "eof" then "bad:cut-message-reported-as-clean-EOF"
              else go gs' us' (inters ++ ints) true fuel
            else
              let invalidText := c.utf8 && u.op == 1 && !wfUtf8 u.payload
              let hasRa := g.any (fun x => x.startsWith "ra,")
              let hasD := g.any (fun x => x.startsWith "d,")
              if invalidText && hasRa then
                (if (errs.contains "utf8" || errs.any (failOk fin kS total u.stop)) && delivered == u.payload.take delivered.length then go gs' us' (inters ++ ints) true fuel
                 else "bad:invalid-utf8-text-not-rejected")
              else if errs.any (failOk fin kS total u.stop) then
                (if delivered != u.payload.take delivered.length then "bad:delivered-bytes-not-from-the-message"
                 else go gs' us' (inters ++ ints) true fuel)
              else if hasRa then
                if delivered != u.payload then "bad:message-not-the-concatenation-of-fragments"
                else if !(errs.all fun e => e == "nil" || e == "eof" || e == "noadvance") then s!"bad:valid-message-refused"
                else go gs' us' (inters ++ ints) false fuel
              else if hasD then
                if delivered != u.payload.take delivered.length then "bad:delivered-bytes-not-from-the-message"
                else if invalidText then go gs' us' (inters ++ ints) false fuel
                else if (g.find? (fun x => x.startsWith "d,")) != some "d,nil" then "bad:discard-of-valid-message-failed"
                else go gs' us' (inters ++ ints) false fuel
              else "skip"
      go groups p.us [] false (groups.length + 2)
    | _ => "bad:format"
  | _ => "bad:format"

end Ws.Driver
