import Driver.C18
namespace Ws.Driver
open Ws

/-! C15: every decoding entry point returns; header decoding and the streaming reader do not
    allocate by the announced length; MaxFrameSize refuses before any payload byte is pulled.
    The model's prediction is the same for every input: the call returns. -/

/-- walk whole frames (header per RFC 6455 §5.2): the offset just past the header, and the announced length, of the first
    frame announcing more than `max`, if the stream reaches one -/
def firstOversized : Nat → Bytes → Nat → Nat → Option (Nat × Nat)
  | 0, _, _, _ => none
  | fuel + 1, bs, max, off =>
    match bs with
    | _ :: b1 :: t =>
      let l := b1 % 128
      let ext := if l == 126 then 2 else if l == 127 then 8 else 0
      let hdr := 2 + ext + (if b1 ≥ 128 then 4 else 0)
      if bs.length < hdr then none else
      let len := if l < 126 then l else (t.take ext).foldl (fun a x => a * 256 + x) 0
      if l == 127 && len ≥ 2 ^ 63 then none       -- header error, not a size refusal
      else if len > max then some (off + hdr, len)
      else if bs.length < hdr + len then none
      else firstOversized fuel (bs.drop (hdr + len)) max (off + hdr + len)
    | _ => none

/-- an operation run in a child process: judged, not predicted — the child returned, and (manyempty) with the
    message "az" and no error -/
def c15iso (a : List String) (obs : String) : String × String :=
  if obs.startsWith "SKIP" then (obs, "skip") else
  (obs,
    if obs.startsWith "CRASH" then "bad:process-died-on-input-from-the-peer"
    else if obs.startsWith "PANIC" then "bad:panic"
    else if obs.startsWith "HANG" then "bad:hang"
    else if a.headD "" == "manyempty" && obs != "nil 617a" then "bad:message-not-delivered"
    else "ok")

def c15fz (a : List String) (obs : String) : String × String :=
  match a with
  | entry :: hex :: rest =>
    let data := hexOrEmpty hex
    let tl := getF obs "toolarge"
    let max := natOr (rest.headD "0")
    let over := if entry == "rmax" && max > 0 then firstOversized (data.length + 1) data max 0 else none
    let model := match over with
      | some (hdr, _) => s!"ret alloc=small toolarge={hdr}"
      | none => "ret alloc=small"
    let verdict :=
      if obs.startsWith "PANIC" then "bad:panic"
      else if obs.startsWith "HANG" then "bad:hang"
      else if (getF obs "alloc").startsWith "LARGE" then "bad:allocation-by-announced-length"
      else match over with
        | some (hdr, _) =>
          if tl == "" then "bad:oversized-frame-not-refused"
          else if natOr tl > hdr then "bad:payload-read-before-MaxFrameSize-refusal"
          else "ok"
        | none => if tl != "" then "bad:frame-within-the-limit-refused" else "ok"
    (model, verdict)
  | _ => ("BADOP", "skip")

end Ws.Driver
