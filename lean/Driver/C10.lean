import Driver.C09
namespace Ws.Driver
open Ws Ws.Spec

def parseOptStr (s : String) : Opt :=
  match s.splitOn ":" with
  | [n, ps] => ⟨hexOr n, if ps == "" then [] else (ps.splitOn ",").map fun kv =>
      match kv.splitOn "=" with
      | [k, v] => (hexOr k, hexOr v)
      | _ => ([], [])⟩
  | _ => ⟨[], []⟩

def parseDialCfg (s : String) : DialCfg :=
  if s == "-" then {} else
  (s.splitOn "/").foldl (fun (c : DialCfg) it =>
    match it.splitOn "@" with
    | ["rb", n] => { c with readBuf := natOr n }
    | ["proto", ps] => { c with protocols := (ps.splitOn "|").map hexOr }
    | ["ext", os] => { c with extensions := (os.splitOn "|").map parseOptStr }
    | ["hdr", h] => { c with header := hexOr h }
    | ["host", h] => { c with host := hexOr h }
    | ["onhdr", k] => { c with onHeaderKey := hexOr k, onHeaderRej := true }
    | _ => c) {}

def dialErrStr : Option DialErr → String
  | none => "nil"
  | some (.io .eof) => "io:eof"
  | some (.io .fail) => "io:fail"
  | some .malformedResponse => "hs:ErrMalformedResponse"
  | some .badProtocol => "hs:ErrHandshakeBadProtocol"
  | some (.status c) => s!"status:{c}"
  | some .badUpgrade => "hs:ErrHandshakeBadUpgrade"
  | some .badConnection => "hs:ErrHandshakeBadConnection"
  | some .badSecAccept => "hs:ErrHandshakeBadSecAccept"
  | some .badSubProtocol => "hs:ErrHandshakeBadSubProtocol"
  | some .badExtensions => "hs:ErrHandshakeBadExtensions"
  | some .onHeader => "hs:plain"

/-- replace every occurrence of `pat` in `bs` by `rep` -/
def replaceAll (bs pat rep : Bytes) : Bytes :=
  let n := pat.length
  let rec go (fuel : Nat) (bs : Bytes) (acc : Bytes) : Bytes :=
    match fuel with
    | 0 => acc ++ bs
    | fuel + 1 =>
      match bs with
      | [] => acc
      | c :: tl => if n > 0 && bs.take n == pat then go fuel (bs.drop n) (acc ++ rep) else go fuel tl (acc ++ [c])
  go (bs.length + 1) bs []

/-! ### independent reading of URL, request and response (oracle side) -/

def b64Alphabet (c : Nat) : Bool :=
  (65 ≤ c && c ≤ 90) || (97 ≤ c && c ≤ 122) || (48 ≤ c && c ≤ 57) || c == 43 || c == 47

/-- scheme, authority without userinfo, request-URI — none when the URL is outside the plain
    subset (then net/url's escaping decisions are left open). -/
def splitURL (raw : Bytes) : Option (Bytes × Bytes × Bytes) :=
  let safe (c : Nat) : Bool := 33 ≤ c && c ≤ 126 && c != 34 && c != 60 && c != 62 && c != 92 && c != 94 && c != 96 && c != 123 && c != 124 && c != 125
  if !raw.all safe || raw.contains 35 then none else
  match findSub raw (strBytes "://") with
  | none => none
  | some i =>
    let scheme := (raw.take i).map lower
    let rest := raw.drop (i + 3)
    let authEnd := (rest.findIdx? (fun c => c == 47 || c == 63 || c == 35)).getD rest.length
    let auth := rest.take authEnd
    let auth := match auth.idxOf? 64 with | some j => auth.drop (j + 1) | none => auth
    let pq := rest.drop authEnd
    let pq := match pq.idxOf? 35 with | some j => pq.take j | none => pq
    let pq := if pq.isEmpty then [47] else if pq.head? == some 63 then 47 :: pq else pq
    -- "?" alone: net/url drops an empty query without ForceQuery … leave open
    if pq.getLast? == some 63 then none else
    some (scheme, auth, pq)

structure OResp where
  version : Bytes
  status : Bytes
  headers : List (Bytes × Bytes)
  complete : Bool
  after : Bytes              -- bytes following the blank line
  parts : Nat := 0           -- space-separated parts of the status line

def parseOResp (bs : Bytes) : Option OResp :=
  match splitLines bs with
  | [] => none
  | sl :: rest =>
    let parts := (bytesToString sl).splitOn " "
    let hs := rest.takeWhile (fun l => !l.isEmpty)
    -- offset of the byte after the blank line
    let rec skip (fuel : Nat) (bs : Bytes) (lines : Nat) : Bytes :=
      match fuel with
      | 0 => []
      | fuel + 1 =>
        if lines == 0 then bs else
        match bs.idxOf? 10 with
        | none => []
        | some i => skip fuel (bs.drop (i + 1)) (lines - 1)
    let complete := rest.any (·.isEmpty)
    some { version := strBytes (parts.headD ""), status := strBytes ((parts.drop 1).headD ""),
           headers := hs.filterMap (fun l => match l.idxOf? 58 with
             | some i => some ((trimWs (l.take i)).map lower, trimWs (l.drop (i + 1)))
             | none => none),
           complete, after := if complete then skip (bs.length + 1) bs (hs.length + 2) else [], parts := parts.length }

def roccs (r : OResp) (n : String) : List Bytes := (r.headers.filter (·.1 == strBytes n)).map (·.2)

/-- simple reading of an extension list without quoted strings: name; k=v; k -/
def simpleExts (v : Bytes) : Option (List Opt) :=
  if v.any (fun c => c == 34 || c == 92 || c == 40) then none else
  let items := ((bytesToString v).splitOn ",").map fun it =>
    match (it.splitOn ";").map (fun p => trimWs (strBytes p)) with
    | [] => (⟨[], []⟩ : Opt)
    | n :: ps => ⟨n, ps.map fun p => match p.idxOf? 61 with
        | some i => (trimWs (p.take i), trimWs (p.drop (i + 1)))
        | none => (p, [])⟩
  if items.all (fun o => !o.name.isEmpty && o.name.all Lex.isToken &&
      o.params.all (fun kv => !kv.1.isEmpty && kv.1.all Lex.isToken && kv.2.all Lex.isToken)) then some items else none

def judgeDial (cfg : DialCfg) (raw resp : Bytes) (err protoObs extsObs req rest nonce : String) (fresh : Bool) : String :=
  let reqB := hexOr req
  let nonceB := hexOr nonce
  -- A. the request written
  let reqVerdict : String :=
    match parseOReq reqB with
    | none => "bad:request-has-no-request-line"
    | some r =>
      let one (n : String) (v : String) : Bool := occs r n == [strBytes v]
      if !r.complete || reqB.drop (reqB.length - 4) != [13, 10, 13, 10] then "bad:request-not-terminated"
      else if r.method != strBytes "GET" then "bad:request-method"
      else if !(reqB.take 4 == strBytes "GET ") then "bad:request-line"
      else if !one "upgrade" "websocket" || !one "connection" "Upgrade" || !one "sec-websocket-version" "13" then "bad:request-fixed-headers"
      else if !(nonceB.length == 24 && (nonceB.take 22).all b64Alphabet && nonceB.drop 22 == [61, 61] && occs r "sec-websocket-key" == [nonceB])
        then "bad:request-key-not-base64-of-16-bytes"
      else if !fresh then "bad:request-key-reused"
      else if !cfg.protocols.isEmpty && occs r "sec-websocket-protocol" != [(cfg.protocols.intersperse (strBytes ", ")).flatten] then "bad:request-protocols"
      else if cfg.protocols.isEmpty && !(occs r "sec-websocket-protocol").isEmpty then "bad:request-protocols"
      else if cfg.extensions.isEmpty != (occs r "sec-websocket-extensions").isEmpty then "bad:request-extensions"
      else if !cfg.extensions.all (fun o => (occs r "sec-websocket-extensions").any (fun v => contains v o.name)) then "bad:request-extensions"
      else if !contains reqB cfg.header then "bad:request-extra-headers"
      else
        let firstLine := (splitLines reqB).headD []
        match splitURL raw with
        | none => "ok"
        | some (_, auth, uri) =>
          if firstLine != strBytes "GET " ++ uri ++ strBytes " HTTP/1.1" then "bad:request-uri"
          else if occs r "host" != [if cfg.host.isEmpty then auth else cfg.host] then "bad:request-host"
          else "ok"
  if reqVerdict != "ok" then reqVerdict else
  -- B. the decision
  match parseOResp resp with
  | none => if err == "nil" then "bad:success-without-a-status-line" else "ok"
  | some r =>
    let vok := versionOk r.version
    let statusOk := r.status == strBytes "101"
    let slOk := r.parts ≥ 3       -- "HTTP-version SP status-code SP reason-phrase": both spaces are mandatory
    let accept := acceptOf nonceB
    let occGood (n : String) (v : Bytes) : Bool :=
      match n with
      | "upgrade" => v.map lower == strBytes "websocket"
      | "connection" => v.map lower == strBytes "upgrade"
      | _ => v == accept
    let names := ["upgrade", "connection", "sec-websocket-accept"]
    let protoVals := roccs r "sec-websocket-protocol"
    let extVals := roccs r "sec-websocket-extensions"
    let offered := cfg.extensions.map (·.name)
    if err == "nil" then
      if !r.complete then "bad:cut-response-accepted"
      else if vok == some false then "bad:bad-http-version-accepted"
      else if !statusOk then "bad:status-not-literally-101-accepted"
      else if !(names.all fun n => (roccs r n).any (occGood n)) then "bad:required-header-missing-or-wrong-accepted"
      else if !(protoVals.all fun v => cfg.protocols.contains v && !v.isEmpty) then "bad:unrequested-subprotocol-accepted"
      else if !(extVals.all fun v => (tokenRuns v).headD [] |> fun n => n.isEmpty || offered.contains n) then "bad:unoffered-extension-accepted"
      else if hexOr protoObs != (protoVals.getLast?.getD []) && protoVals.length ≤ 1 then "bad:returned-subprotocol-not-the-one-sent"
      else if hexOr rest != r.after then "bad:post-handshake-bytes-lost-or-changed"
      else
        match extVals.mapM simpleExts with
        | some lists =>
          let sent := lists.flatten
          if sent.all (fun o => offered.contains o.name) && extsObs != optsStr sent then "bad:returned-extensions-not-those-sent"
          else "ok"
        | none => "ok"
    else if err.startsWith "io:" then
      -- a complete, acceptable head must not end in a transport error
      if r.complete && vok == some true && statusOk && slOk && (names.all fun n => !(roccs r n).isEmpty && (roccs r n).all (occGood n))
          && protoVals.isEmpty && extVals.isEmpty && !cfg.onHeaderRej then s!"bad:valid-response-refused-{err}" else "ok"
    else
      let must := r.complete && vok == some true && statusOk && slOk && (names.all fun n => !(roccs r n).isEmpty && (roccs r n).all (occGood n))
        && protoVals.isEmpty && extVals.isEmpty && !cfg.onHeaderRej
      if must then s!"bad:valid-response-refused-{err}" else "ok"

/-- the accept value with the two unused (padding) bits of its last base64 digit changed: a
    different header value that decodes to the same 20 bytes under a lenient base64 decoder. -/
def acceptAlt (key : Bytes) (x : Nat) : Bytes :=
  let a := acceptOf key
  let c := a.getD 26 0
  let i := ((List.range 64).find? fun i => b64Char i == c).getD 0
  a.set 26 (b64Char (i ^^^ x))

def substAccept (resp nonce : Bytes) : Bytes :=
  let r0 := replaceAll resp (strBytes "@ACCEPT@") (acceptOf nonce)
  [1, 2, 3].foldl (fun r x => replaceAll r (strBytes s!"@ACCEP{x}@") (acceptAlt nonce x)) r0

def c10dl (a : List String) (obs : String) : String × String :=
  match a with
  | [cfgS, urlS, respS, k, fin] =>
    if obs.startsWith "SKIP" then (obs, "skip") else
    let cfg := parseDialCfg cfgS
    let f := obs.splitOn " "
    let get (k : String) : String := ((f.filter (·.startsWith (k ++ "="))).headD "").drop (k.length + 1) |>.toString
    let nonce := hexOr (get "nonce")
    let resp := substAccept (hexOr respS) nonce
    let s : Src := { chunks := chunksOf (natOr k) resp, fin := if fin.startsWith "F" then .fail else .eof, dataWithFin := fin.endsWith "d" }
    let req := writeUpgradeRequest cfg (hexOr (get "uri")) (hexOr (get "uhost")) nonce
    let (hs, e, b) := dialerUpgrade cfg nonce s
    let rest := if e.isNone then Bytes.toHex (b.buf ++ b.src.bytes) else "-"
    let brnil := if e.isSome || b.buf.isEmpty then 1 else 0
    let model := s!"{dialErrStr e} proto={Bytes.toHex hs.protocol} exts={optsStr hs.extensions} req={Bytes.toHex req} rest={rest} nonce={get "nonce"} uri={get "uri"} uhost={get "uhost"} fresh={get "fresh"} brnil={brnil} again=1"
    let v := judgeDial cfg (hexOr urlS) resp (f.headD "") (get "proto") (get "exts") (get "req") (get "rest") (get "nonce") (get "fresh" == "1")
    (model, if v == "ok" && get "again" != "1" then "bad:dialer-configuration-changed-by-a-handshake" else v)
  | _ => ("BADOP", "skip")

/-- default port by scheme, independent of the model's hostport -/
def c10dial (a : List String) (obs : String) : String × String :=
  match a with
  | [urlS] =>
    let f := obs.splitOn " "
    let get (k : String) : String := ((f.filter (·.startsWith (k ++ "="))).headD "").drop (k.length + 1) |>.toString
    let scheme := hexOr (get "scheme")
    let uhost := hexOr (get "uhost")
    let isWs := scheme == strBytes "ws"
    let isWss := scheme == strBytes "wss"
    let model :=
      if get "scheme" == "-" || !(isWs || isWss) then s!"nodial:err net= addr=- tlshost=- scheme={get "scheme"} uhost={get "uhost"}"
      else
        let (hn, addr) := hostport uhost (strBytes (if isWs then ":80" else ":443"))
        s!"dialed net=tcp addr={Bytes.toHex addr} tlshost={if isWss then Bytes.toHex hn else "-"} scheme={get "scheme"} uhost={get "uhost"}"
    -- oracle: from the raw URL
    let verdict :=
      match splitURL (hexOr urlS) with
      | none => "skip"
      | some (sch, auth, _) =>
        let dflt := if sch == strBytes "ws" then some (strBytes ":80") else if sch == strBytes "wss" then some (strBytes ":443") else none
        match dflt with
        | none => if (f.headD "").startsWith "nodial" then "ok" else "bad:unknown-scheme-dialed"
        | some dp =>
          -- a port is present when a ':' follows the last ']' (or there is no bracket)
          let afterBr := match auth.reverse.idxOf? 93 with | some i => auth.drop (auth.length - i) | none => auth
          let hasPort := afterBr.contains 58
          if auth.isEmpty || afterBr == [58] then "skip"
          else
            let expAddr := if hasPort then auth else auth ++ dp
            if (f.headD "") != "dialed" then "bad:ws-url-not-dialed"
            else if hexOr (get "addr") != expAddr then "bad:dialed-address"
            else if get "net" != "tcp" then "bad:dialed-network"
            else "ok"
    (model, verdict)
  | _ => ("BADOP", "skip")

/-- dialtls: model = hostport + tlsServerName; oracle = the name in the raw URL (no userinfo, no brackets
    in the generated URLs), or the configured name. -/
def c10dialtls (a : List String) (obs : String) : String × String :=
  match a with
  | [urlS, mode] =>
    let f := obs.splitOn " "
    let get (k : String) : String := ((f.filter (·.startsWith (k ++ "="))).headD "").drop (k.length + 1) |>.toString
    let cfgName : Option Bytes := if mode == "nil" then none else if mode == "empty" then some [] else some (hexOr (mode.drop 6).toString)
    let uhost := hexOr (get "uhost")
    let (hn, addr) := hostport uhost (strBytes ":443")
    let (sni, after) := tlsServerName cfgName hn
    let model := s!"err addr={Bytes.toHex addr} sni={Bytes.toHex sni} cfgafter={if cfgName.isSome then Bytes.toHex after else "-"} uhost={get "uhost"}"
    let verdict :=
      match splitURL (hexOr urlS) with
      | none => "skip"
      | some (_, auth, _) =>
        let host := auth.takeWhile (· != 58)
        let want := match cfgName with | some (c :: cs) => c :: cs | _ => host
        if get "sni" == "-" then "bad:no-tls-session-requested"
        else if hexOr (get "sni") != want then "bad:tls-session-for-another-host"
        else if cfgName.isSome && hexOr (get "cfgafter") != cfgName.getD [] then "bad:callers-tls-config-modified"
        else "ok"
    (model, verdict)
  | _ => ("BADOP", "skip")

end Ws.Driver
