import Driver.C15
import WsVerif.Model.Dial
namespace Ws.Driver
open Ws Ws.Dial

-- "neverT": a wss:// URL whose peer stays silent (the TLS handshake's first flight is never answered)
def parseU (s : String) : Option Nat := if s == "never" || s == "neverT" || s == "neverD" then none else some (natOr s)

def dErrStr : Dial.Err → String
  | .nil => "nil" | .canceled => "canceled" | .deadlineExceeded => "deadline" | .netTimeout => "nettimeout" | .io => "io"
def dlStr : DL → String
  | .untouched => "untouched" | .cleared => "cleared" | .poisoned => "poisoned" | .armed => "armed"

def c20dialc (a : List String) (obs : String) : String × String :=
  if obs.startsWith "SKIP" then (obs, "skip") else
  match a with
  | [bg, to, cx, dd0, hs0, fl] =>
    -- "<u>i": NetDial ignores its context
    let ign := dd0.endsWith "i"
    let dd := if ign then dd0.dropRight 1 else dd0
    -- "a+b": the response arrives in two parts; the handshake I/O finishes when the second has arrived
    let hs := match hs0.splitOn "+" with
      | [x, y] => toString (natOr x + natOr y)
      | _ => hs0
    let finish0 : Option Nat := match parseU dd, parseU hs with | some d, some h => some (d + h) | _, _ => none
    let (ctxEnd, isDl) : Option Nat × Bool :=
      if cx == "atfinish" || cx == "atfinishs" then (finish0, false) else
      match cx.splitOn ":" with
      | ["cancel", t] => (some (natOr t), false)
      | ["deadline", t] => (some (natOr t), true)
      | _ => (none, false)
    let i : In := { bg := bg == "1", timeout := if to == "0" then none else some (natOr to), ctxEnd, ctxIsDeadline := isDl,
                    dialDur := parseU dd, hsDur := parseU hs, hsFail := fl == "1",
                    pickCtx := getF obs "err" != "nil", dialIgnores := ign }     -- the scheduler's choice in the unforced race is an input
    let o := dial i
    let model := s!"err={dErrStr o.err} connected={if o.connected then 1 else 0} closed={if o.closed then 1 else 0} dl={dlStr o.dl} late=0 hung=0 leak=0 touched=0"
    -- oracle: the property's clauses on the observation alone
    let err := getF obs "err"; let closed := getF obs "closed"; let dl := getF obs "dl"; let conn := getF obs "connected"
    let limit := minO ctxEnd (if to == "0" then none else some (natOr to))
    let finish : Option Nat := match parseU dd, parseU hs with | some d, some h => some (d + h) | _, _ => none
    let verdict :=
      if obs.startsWith "HANG" then "bad:dial-never-returned"
      else if err == "panic" then "bad:dial-panicked"
      else if getF obs "hung" == "1" then "bad:dial-waits-on-a-silent-peer-past-the-limit"
      else if getF obs "late" == "1" then "bad:dial-returned-later-than-the-earlier-of-context-end-and-timeout"
      else if getF obs "leak" == "1" then "bad:watcher-goroutine-still-running"
      else if getF obs "touched" == "1" then "bad:conn-touched-after-return"
      else if err == "nil" && (closed != "0" || !(dl == "cleared" || dl == "untouched")) then "bad:success-with-closed-or-poisoned-conn"
      else if err != "nil" && conn == "1" && closed != "1" then "bad:error-without-closing-the-conn"
      else
        -- the context (or timeout) ended strictly before the handshake I/O would have finished
        match limit with
        | some l =>
          let before := match finish with | some f => l < f | none => true
          if before && !(err == "canceled" || err == "deadline" || (bg == "1" && err == "nettimeout")) then "bad:context-ended-first-but-error-is-not-the-context's"
          else "ok"
        | none => "ok"
    (model, verdict)
  | _ => ("BADOP", "skip")

end Ws.Driver
