import Driver.Util
import WsVerif.Model.Check
import WsVerif.Spec.Check
namespace Ws.Driver
open Ws Ws.Spec

def errStr : Option ProtoErr → String
  | none => "nil"
  | some e => "proto:" ++ e.goName

def ruleName : Rule → String
  | .reservedOpcode => "ErrProtocolOpCodeReserved"
  | .controlTooLong => "ErrProtocolControlPayloadOverflow"
  | .controlNotFinal => "ErrProtocolControlNotFinal"
  | .rsvWithoutExtension => "ErrProtocolNonZeroRsv"
  | .serverGotUnmasked => "ErrProtocolMaskRequired"
  | .clientGotMasked => "ErrProtocolMaskUnexpected"
  | .dataWhileFragmented => "ErrProtocolContinuationExpected"
  | .continuationWhileIdle => "ErrProtocolContinuationUnexpected"

def c03chk (a : List String) (obs : String) : String × String :=
  match a with
  | [f, r, o, m, l, st] =>
    let h := parseHeader [f, r, o, m, "00000000", l]
    let s := natOr st
    let model := errStr (checkHeader h s)
    let broken := allRules.filter fun rl => decide (Broken rl h (stOf s))
    let verdict :=
      if broken.isEmpty then (if obs == "nil" then "ok" else "bad:rejected-a-header-breaking-no-rule")
      else if obs == "nil" then "bad:accepted-a-header-breaking-" ++ ruleName (broken.headD .reservedOpcode)
      else if broken.any fun rl => obs == "proto:" ++ ruleName rl then "ok"
      else "bad:reported-rule-not-broken"
    (model, verdict)
  | _ => ("BADOP", "skip")

def c03cls (a : List String) (obs : String) : String × String :=
  match a with
  | [c, r] =>
    let code := natOr c; let reason := hexOr r
    let v := wfUtf8 reason
    let model := s!"{errStr (checkCloseFrameData code reason)} v={b2s v}"
    let o := (obs.splitOn " ").headD ""
    let verdict :=
      if obs.endsWith "v=1" != v then "bad:utf8.ValidString-disagrees-with-Table-3-7"
      else if decide (closeOk code) ∧ v then (if o == "nil" then "ok" else "bad:refused-acceptable-close")
      else if ¬ v then (if o == "nil" then "bad:accepted-invalid-utf8-reason" else "ok")
      else if code < 5000 ∧ ¬ decide (closeOk code) ∧ ¬ (1012 ≤ code ∧ code ≤ 1014) then
        (if o == "nil" then "bad:accepted-forbidden-code" else "ok")
      else "ok"
    (model, verdict)
  | _ => ("BADOP", "skip")

def c03body (a : List String) (obs : String) : String × String :=
  match a with
  | [c, r] =>
    let code := natOr c; let reason := hexOr r
    match newCloseFrameBody code reason with
    | none => ("PANIC", if obs.startsWith "PANIC" then "bad:panic" else "ok")
    | some b =>
      let (pc, pr) := parseCloseFrameData b
      let model := s!"{Bytes.toHex b} {pc} {Bytes.toHex pr} {pc} {Bytes.toHex pr}"
      let f := obs.splitOn " "
      let ob := hexOr (f.getD 0 "")
      let crop := reason.take 123
      let exp := s!"{code} {Bytes.toHex crop} {code} {Bytes.toHex crop}"
      let verdict :=
        if ob.length > 125 then "bad:body-longer-than-125"
        else if " ".intercalate (f.drop 1) != exp then "bad:body-does-not-parse-back"
        else if ob != [code / 256 % 256, code % 256] ++ crop then "bad:body-layout"
        else "ok"
      (model, verdict)
  | _ => ("BADOP", "skip")

def c03parse (a : List String) (obs : String) : String × String :=
  match a with
  | [p] =>
    let pl := hexOr p
    let (c, r) := parseCloseFrameData pl
    let model := s!"{c} {Bytes.toHex r} {c} {Bytes.toHex r}"
    let exp := if pl.length < 2 then "0 - 0 -" else
      s!"{pl.getD 0 0 * 256 + pl.getD 1 0} {Bytes.toHex (pl.drop 2)} {pl.getD 0 0 * 256 + pl.getD 1 0} {Bytes.toHex (pl.drop 2)}"
    (model, if obs == exp then "ok" else "bad:parse")
  | _ => ("BADOP", "skip")

def c03pred (a : List String) (obs : String) : String × String :=
  match a with
  | [o] =>
    let c := natOr o
    let model := s!"{b2s (opIsControl c)}{b2s (opIsData c)}{b2s (opIsReserved c)}"
    let exp := s!"{b2s (decide (8 ≤ c))}{b2s (decide (c < 8))}{b2s (decide ((3 ≤ c ∧ c ≤ 7) ∨ (11 ≤ c ∧ c ≤ 15)))}"
    (model, if obs == exp then "ok" else "bad:opcode-class")
  | _ => ("BADOP", "skip")

def c03spred (a : List String) (obs : String) : String × String :=
  match a with
  | [o] =>
    let c := natOr o
    let model := s!"{b2s (c == 0)}{b2s (codeIsNotUsed c)}{b2s (codeIsProtocolSpec c)}{b2s (codeIsApplicationSpec c)}{b2s (codeIsPrivateSpec c)}{b2s (codeIsProtocolDefined c)}{b2s (codeIsProtocolReserved c)}"
    let exp := s!"{b2s (c == 0)}{b2s (decide (c ≤ 999))}{b2s (decide (1000 ≤ c ∧ c ≤ 2999))}{b2s (decide (3000 ≤ c ∧ c ≤ 3999))}{b2s (decide (4000 ≤ c ∧ c ≤ 4999))}"
    (model, if obs.take 5 == exp then "ok" else "bad:status-range")
  | _ => ("BADOP", "skip")

end Ws.Driver
