import Driver.Util
import WsVerif.Spec.Header
namespace Ws.Driver
open Ws Ws.Spec

def c01wh (a : List String) (obs : String) : String × String :=
  let h := parseHeader a
  let model := match writeHeader h with
    | .ok b => s!"{Bytes.toHex b} {headerSize h}"
    | .error _ => s!"ERR:unexpected {headerSize h}"
  let verdict :=
    if decide h.WF then
      let exp := s!"{Bytes.toHex (rfcEncode h)} {rfcSize h}"
      if obs == exp then "ok" else s!"bad:rfc-layout-expected:{exp}"
    else "skip"
  (model, verdict)

def rhRes (total : Nat) (r : Except HdrErr Header × Src) : String :=
  let consumed := total - r.2.bytes.length
  match r.1 with
  | .ok h => s!"ok,{hdrStr h},{consumed}"
  | .error e => s!"err,{hdrErrStr e},{consumed}"

/-- Oracle for one decoder's observed result against §5.2. -/
def rhJudge (bs : Bytes) (obs : String) : Option String :=
  let f := obs.splitOn ","
  match rfcDecode bs with
  | .ok h k =>
    let exp := s!"ok,{hdrStr h},{k}"
    if obs == exp then none else some s!"expected:{exp}"
  | .msb => if f.take 2 == ["err", "msb"] then none else some "expected:err,msb"
  | .incomplete =>
    if f.head? == some "err" ∧ (f.getD 1 "" == "eof" ∨ f.getD 1 "" == "ueof" ∨ f.getD 1 "" == "fail")
    then none else some "expected:err(incomplete)"

def c01rh (a : List String) (obs : String) : String × String :=
  match a with
  | [hex, k, fin] =>
    let s := mkSrc hex k fin
    let total := s.bytes.length
    let model := s!"W:{rhRes total (readHeaderWs s)} U:{rhRes total (readHeaderUtil s)}"
    let verdict :=
      match obs.splitOn " " with
      | [w, u] =>
        if ¬ (w.startsWith "W:" ∧ u.startsWith "U:") then "bad:format" else
        let w := (w.drop 2).toString; let u := (u.drop 2).toString
        if w != u then "bad:decoders-disagree" else
        match rhJudge s.bytes w with
        | none => "ok"
        | some e => s!"bad:{e}"
      | _ => "bad:format"
    (model, verdict)
  | _ => ("BADOP", "skip")

def rhsIter (rd : Src → Except HdrErr Header × Src) (total : Nat) : Nat → Src → List String → List String
  | 0, _, acc => acc.reverse
  | n + 1, s, acc =>
    let r := rd s
    let item := rhRes total r
    match r.1 with
    | .ok _ => rhsIter rd total n r.2 (item :: acc)
    | .error _ => (item :: acc).reverse

/-- Each observed item against §5.2 at the offset where the previous header ended. -/
def rhsJudge (bs : Bytes) : Nat → Nat → List String → Option String
  | _, 0, [] => none
  | _, _ + 1, [] => some "fewer-headers-than-asked"
  | _, 0, _ :: _ => some "more-headers-than-asked"
  | off, n + 1, it :: rest =>
    let f := it.splitOn ","
    match rfcDecode (bs.drop off) with
    | .ok h k =>
      let exp := s!"ok,{hdrStr h},{off + k}"
      if it != exp then some s!"expected:{exp}" else rhsJudge bs (off + k) n rest
    | .msb => if f.take 2 == ["err", "msb"] ∧ rest.isEmpty then none else some "expected:err,msb"
    | .incomplete =>
      if f.head? == some "err" ∧ (f.getD 1 "" == "eof" ∨ f.getD 1 "" == "ueof" ∨ f.getD 1 "" == "fail") ∧ rest.isEmpty
      then none else some "expected:err(incomplete)"

def c01rhs (a : List String) (obs : String) : String × String :=
  match a with
  | [hex, k, fin, n] =>
    let s := mkSrc hex k fin
    let total := s.bytes.length
    let n := natOr n
    let w := "|".intercalate (rhsIter readHeaderWs total n s [])
    let u := "|".intercalate (rhsIter readHeaderUtil total n s [])
    let verdict :=
      match obs.splitOn " " with
      | [ow, ou] =>
        if ¬ (ow.startsWith "W:" ∧ ou.startsWith "U:") then "bad:format" else
        let ow := (ow.drop 2).toString; let ou := (ou.drop 2).toString
        if ow != ou then "bad:decoders-disagree" else
        match rhsJudge s.bytes 0 n (ow.splitOn "|") with
        | none => "ok"
        | some e => s!"bad:{e}"
      | _ => "bad:format"
    (s!"W:{w} U:{u}", verdict)
  | _ => ("BADOP", "skip")

def c01wf (a : List String) (obs : String) : String × String :=
  match a with
  | [f, r, o, m, k, p] =>
    let pl := hexOr p
    let h := { parseHeader [f, r, o, m, k, "0"] with len := pl.length }
    let fr : Frame := ⟨h, pl⟩
    let model := match writeFrame fr, compileFrame fr with
      | .ok a, .ok b => s!"{Bytes.toHex a} {Bytes.toHex b}"
      | _, _ => "ERR"
    let exp := Bytes.toHex (rfcEncode h ++ pl)
    let verdict := if decide h.WF then (if obs == s!"{exp} {exp}" then "ok" else "bad:frame-bytes") else "skip"
    (model, verdict)
  | _ => ("BADOP", "skip")

def c01rf (a : List String) (obs : String) : String × String :=
  match a with
  | [hex, k, fin] =>
    let s := mkSrc hex k fin
    let total := s.bytes.length
    let r := readFrame s
    let model := match r.1 with
      | .ok fr => s!"ok,{hdrStr fr.header},{Bytes.toHex fr.payload},{total - r.2.bytes.length}"
      | .error e => s!"err,{hdrErrStr e}"
    -- oracle: header per §5.2 followed by exactly `len` payload bytes
    let verdict :=
      match rfcDecode s.bytes with
      | .ok h k2 =>
        let rest := s.bytes.drop k2
        if h.len ≤ rest.length then
          let exp := s!"ok,{hdrStr h},{Bytes.toHex (rest.take h.len)},{k2 + h.len}"
          if obs == exp then "ok" else s!"bad:expected:{exp}"
        else if !obs.startsWith "err," then "bad:cut-frame-reported-ok"
        -- C16: a payload cut after at least one of its bytes is never a clean end of stream
        else if rest.length ≥ 1 && fin.startsWith "E" && obs == "err,eof" then "bad:cut-payload-reported-as-clean-EOF"
        else "ok"
      | _ => if obs.startsWith "err," then "ok" else "bad:expected-error"
    (model, verdict)
  | _ => ("BADOP", "skip")

end Ws.Driver
