import Driver.Util
import Driver.C02
import Driver.C14
import WsVerif.Model.Dialer
namespace Ws.Driver
open Ws Ws.Spec

def parseRej (f : List String) : HsErr :=
  match f with
  | [code, reason, hdr] =>
    let c := natOr code
    -- "r0": a ConnectionRejectedError built without RejectionStatus (code 0, answered with 500 like a plain error)
    { name := if code == "r0" then "cb" else if c == 0 then "plain" else "cb", code := c, reason := hexOr reason, header := if hdr == "-" then [] else hexOr hdr }
  | _ => ⟨"plain", 0, [], []⟩

def parseUpCfg (s : String) : UpCfg :=
  if s == "-" then {} else
  (s.splitOn ",").foldl (fun (c : UpCfg) it =>
    match it.splitOn ":" with
    | ["rb", n] => { c with readBuf := natOr n }
    | ["proto", ps] => { c with protocols := some (if ps == "" then [] else (ps.splitOn "|").map hexOr) }
    -- ProtocolCustom set to the library's own selection rule: same model
    | ["protoc", ps] => { c with protocols := some (if ps == "" then [] else (ps.splitOn "|").map hexOr) }
    | ["neg", p] => { c with negotiate := some (parseCfg14 (p.replace ";" ",")) }
    | ["ext", ps] => { c with extension := some ((ps.splitOn "|").map hexOr) }
    | ["hdr", h] => { c with header := hexOr h }
    -- code "ok": the callback is installed and accepts (for the model: no rejection)
    | ["onreq", a, b, d] => if a == "ok" then c else { c with onRequest := some (parseRej [a, b, d]) }
    | ["onhost", a, b, d] => if a == "ok" then c else { c with onHost := some (parseRej [a, b, d]) }
    | ["onhdr", k, a, b, d] => if a == "ok" then c else { c with onHeaderKey := hexOr k, onHeader := some (parseRej [a, b, d]) }
    | ["before", "h", h] => { c with onBeforeUpgrade := some (.inl (hexOr h)) }
    | ["before", "r", a, b, d] => { c with onBeforeUpgrade := some (.inr (parseRej [a, b, d])) }
    | _ => c) {}

def optsStr (os : List Opt) : String := if os.isEmpty then "-" else "|".intercalate (os.map optStr)

def upErrStr : Option UpErr → String
  | none => "nil"
  | some (.io .eof) => "io:eof"
  | some (.io .fail) => "io:fail"
  | some (.hs e) => "hs:" ++ e.name

def bytesToString (b : Bytes) : String := String.mk (b.map Char.ofNat)

/-! ### independent reading of a request (oracle side) -/

def splitLines (bs : Bytes) : List Bytes :=
  -- lines end in LF; a CR before it is dropped; a last unterminated piece is not a line
  let rec go (fuel : Nat) (bs : Bytes) (acc : List Bytes) : List Bytes :=
    match fuel with
    | 0 => acc.reverse
    | fuel + 1 =>
      match bs.idxOf? 10 with
      | none => acc.reverse
      | some i =>
        let l := bs.take i
        let l := if l.getLast? == some 13 then l.dropLast else l
        go fuel (bs.drop (i + 1)) (l :: acc)
  go (bs.length + 1) bs []

def trimWs (b : Bytes) : Bytes :=
  let ws (c : Nat) : Bool := c == 32 || c == 9
  ((b.dropWhile ws).reverse.dropWhile ws).reverse

structure OReq where
  method : Bytes
  version : Bytes
  headers : List (Bytes × Bytes)    -- lower-cased name, trimmed value
  complete : Bool                   -- the blank line was seen
  malformed : Bool := false         -- some header line has no colon

def parseOReq (bs : Bytes) : Option OReq :=
  match splitLines bs with
  | [] => none
  | rl :: rest =>
    let parts := (bytesToString rl).splitOn " "
    let hs := rest.takeWhile (fun l => !l.isEmpty)
    some { method := strBytes (parts.headD ""),
           version := strBytes (" ".intercalate (parts.drop 2)),
           headers := hs.filterMap (fun l => match l.idxOf? 58 with
             | some i => some ((trimWs (l.take i)).map lower, trimWs (l.drop (i + 1)))
             | none => none),
           complete := rest.any (·.isEmpty),
           malformed := hs.any (fun l => (l.idxOf? 58).isNone) }

def allDigits (b : Bytes) : Bool := !b.isEmpty && b.all (fun c => 48 ≤ c && c ≤ 57)

/-- "HTTP/1.x" with x ≥ 1 (no leading zeros): some true; clearly not: some false; left open: none. -/
def versionOk (v : Bytes) : Option Bool :=
  if v.take 7 == strBytes "HTTP/1." then
    let m := v.drop 7
    if allDigits m then
      (if (m.length > 1 && m.head? == some 48) || m.length > 18 then none   -- leading zeros / beyond int: open
       else some (decide (m.foldl (fun a c => a * 10 + (c - 48)) 0 ≥ 1)))
    else some false
  else if v.take 5 == strBytes "HTTP/" && (v.drop 5).take 1 == [48] then none   -- leading zeros in major
  else some false

/-- strict reading: a comma-separated list of plain tokens -/
def tokensStrict (v : Bytes) : Option (List Bytes) :=
  let parts := ((bytesToString v).splitOn ",").map (fun t => trimWs (strBytes t))
  if parts.all (fun t => !t.isEmpty && t.all Lex.isToken) then some parts else none

/-- lenient reading: maximal runs of token characters -/
def tokenRuns (v : Bytes) : List Bytes :=
  (v.foldl (fun (acc : List Bytes × Bytes) c =>
    if Lex.isToken c then (acc.1, acc.2 ++ [c]) else (if acc.2.isEmpty then acc.1 else acc.1 ++ [acc.2], [])) ([], [])
   |> fun (l, cur) => if cur.isEmpty then l else l ++ [cur])

def occOk (strict : Bool) (name : String) (v : Bytes) : Bool :=
  match name with
  | "host" => if strict then !v.isEmpty else true
  | "upgrade" => v.map lower == strBytes "websocket"
  | "connection" =>
    if strict then (match tokensStrict v with | some ts => (ts.map (·.map lower)).contains (strBytes "upgrade") | none => false)
    else ((tokenRuns v).map (·.map lower)).contains (strBytes "upgrade")
  | "sec-websocket-version" => v == strBytes "13"
  | "sec-websocket-key" => v.length == 24
  | _ => true

def mandatory : List String := ["host", "upgrade", "connection", "sec-websocket-version", "sec-websocket-key"]

def occs (r : OReq) (n : String) : List Bytes := (r.headers.filter (·.1 == strBytes n)).map (·.2)
def allOcc (r : OReq) : Bool := mandatory.all fun n => !(occs r n).isEmpty && (occs r n).all (occOk true n)
def someOcc (r : OReq) : Bool := mandatory.all fun n => (occs r n).any (occOk false n)

def findSub (hay needle : Bytes) : Option Nat :=
  let n := needle.length
  (List.range (hay.length + 1 - n)).find? (fun i => (hay.drop i).take n == needle)

def contains (hay needle : Bytes) : Bool := (findSub hay needle).isSome

/-- value of a response header line "Name: value\r\n" -/
def respHeader (resp : Bytes) (name : String) : Option Bytes :=
  let ls := splitLines resp
  (ls.drop 1 |>.takeWhile (fun l => !l.isEmpty)).findSome? fun l =>
    let pre := strBytes (name ++ ": ")
    if l.take pre.length == pre then some (l.drop pre.length) else none

def respBody (resp : Bytes) : Bytes :=
  match findSub resp [13, 10, 13, 10] with
  | some i => resp.drop (i + 4)
  | none => []

/-- the request line certainly parses (method SP uri SP "HTTP/" 1-9 digits "." 1-9 digits): from
    then on every failure must be answered with an HTTP error response -/
def reqLineClearlyParses (bs : Bytes) : Bool :=
  match splitLines bs with
  | [] => false
  | rl :: _ =>
    match rl.idxOf? 32 with
    | none => false
    | some a =>
      let r2 := rl.drop (a + 1)
      match r2.idxOf? 32 with
      | none => false
      | some b =>
        let v := r2.drop (b + 1)
        if v.take 5 != strBytes "HTTP/" then false else
        let w := v.drop 5
        match w.idxOf? 46 with
        | none => false
        | some d =>
          let ma := w.take d
          let mi := w.drop (d + 1)
          allDigits ma && allDigits mi && ma.length ≤ 9 && mi.length ≤ 9

def splitByte (b : Bytes) (sep : Nat) : List Bytes :=
  (b.foldl (fun (acc : List Bytes × Bytes) c => if c == sep then (acc.1 ++ [acc.2], []) else (acc.1, acc.2 ++ [c])) ([], []))
  |> fun (l, cur) => l ++ [cur]

def trimBlank (b : Bytes) : Bytes :=
  let d := b.dropWhile (fun c => c == 32 || c == 9)
  (d.reverse.dropWhile (fun c => c == 32 || c == 9)).reverse

/-- An extension header line in which a permessage-deflate offer CLEARLY carries a parameter RFC 7692 does
    not define, or window bits outside 8..15 (plain digits): the wsflate negotiator objects to the handshake.
    Lines with quotes are left alone (not clear-cut). Independent of Model/Negotiate. -/
def clearlyObjectionable (lines : List Bytes) : Bool :=
  if lines.any (·.contains 34) then false else
  -- the negotiator stops looking once it has accepted an offer, so only the FIRST permessage-deflate offer
  -- (client order, across the header lines) is certain to be examined
  let items := (lines.flatMap fun l => splitByte l 44).map fun item => (splitByte item 59).map trimBlank
  match items.find? (fun it => it.headD [] == strBytes "permessage-deflate") with
  | none => false
  | some it =>
    match it with
    | _ :: params =>
      params.any fun p =>
        let kv := splitByte p 61
        let k := trimBlank (kv.headD [])
        let known := [strBytes "server_no_context_takeover", strBytes "client_no_context_takeover",
                      strBytes "server_max_window_bits", strBytes "client_max_window_bits"]
        if k.isEmpty then false
        else if !(k.all Lex.isToken) then false
        else if !known.contains k then true
        else match kv with
          | [_, v] =>
            let v := trimBlank v
            (k == strBytes "server_max_window_bits" || k == strBytes "client_max_window_bits") && allDigits v && v.length ≤ 3 &&
              (let n := natOr (bytesToString v); n < 8 || n > 15)
          | _ => false
    | [] => false

/-- The offers of Sec-WebSocket-Extensions lines that are plainly written (tokens, `;`, `=`, `,`, blanks
    only - no quoting), as a list of (name, parameters); `none` when any line is not that plain.
    Independent of the model's header parser. -/
def plainOffer (vals : List Bytes) : Option (List Opt) :=
  let tokenCh (c : Nat) : Bool := (48 ≤ c && c ≤ 57) || (65 ≤ c && c ≤ 90) || (97 ≤ c && c ≤ 122) || c == 45 || c == 95 || c == 46
  let tok (b : Bytes) : Bool := !b.isEmpty && b.all tokenCh
  let param (b : Bytes) : Option (Bytes × Bytes) :=
    match splitByte (trimBlank b) 61 with
    | [k] => if tok (trimBlank k) then some (trimBlank k, []) else none
    | [k, v] => if tok (trimBlank k) && tok (trimBlank v) then some (trimBlank k, trimBlank v) else none
    | _ => none
  let item (b : Bytes) : Option Opt :=
    match splitByte b 59 with
    | [] => none
    | n :: ps =>
      if !tok (trimBlank n) then none else
      (ps.mapM param).map fun l => { name := trimBlank n, params := l }
  (vals.mapM fun v => (splitByte v 44).mapM item).map List.flatten

/-- Oracle for one server-upgrade observation. `cbRejects`: a rejecting callback is configured. -/
def judgeUpgrade (cfg : UpCfg) (reqBytes : Bytes) (err protoObs written : String) (zeroCopy : Bool) (extsObs : String := "?") : String :=
  let wr := hexOr written
  let is101 := wr.take 12 == strBytes "HTTP/1.1 101"
  match parseOReq reqBytes with
  | none => if err == "nil" then "bad:success-without-a-request-line" else "ok"
  | some r =>
    let vok := versionOk r.version
    let cbRej := cfg.onRequest.isSome || cfg.onHost.isSome || cfg.onHeader.isSome ||
      (match cfg.onBeforeUpgrade with | some (.inr _) => true | _ => false)
    let hasSel := !(occs r "sec-websocket-protocol").isEmpty && cfg.protocols.isSome
    let hasExt := !(occs r "sec-websocket-extensions").isEmpty && (cfg.negotiate.isSome || cfg.extension.isSome)
    if err == "nil" then
      -- soundness
      if !is101 then "bad:success-without-101"
      else if !r.complete then "bad:cut-request-upgraded"
      else if r.method != strBytes "GET" then "bad:non-GET-upgraded"
      else if vok == some false then "bad:bad-http-version-upgraded"
      else if !someOcc r then "bad:non-compliant-request-upgraded"
      else if cfg.negotiate.isSome && clearlyObjectionable (occs r "sec-websocket-extensions") then "bad:upgraded-although-the-negotiator-objected"
      else
        match respHeader wr "Sec-WebSocket-Accept" with
        | none => "bad:no-accept-header"
        | some acc =>
          let keys := (occs r "sec-websocket-key").filter (·.length == 24)
          if !(keys.any fun k => acceptOf k == acc) then "bad:accept-not-derived-from-the-key-received"
          else
            -- subprotocol: first token in client order the selector accepts
            let expProto : Bytes := match cfg.protocols with
              | some accept =>
                ((occs r "sec-websocket-protocol").flatMap tokenRuns).find? (accept.contains ·) |>.getD []
              | none => []
            let sent := (respHeader wr "Sec-WebSocket-Protocol").getD []
            if hexOr protoObs != expProto || sent != expProto then "bad:subprotocol-not-first-accepted-in-client-order"
            else if cfg.header != [] && !contains wr cfg.header then "bad:extra-headers-missing"
            else
              -- deprecated Extension selector (no negotiator): the answer is the client's own offers the
              -- selector accepts, in client order, each with the parameters it was offered with
              match cfg.extension, cfg.negotiate, plainOffer (occs r "sec-websocket-extensions") with
              | some accept, none, some offers =>
                let exp := optsStr (offers.filter fun o => accept.contains o.name)
                if extsObs != "?" && extsObs != exp then s!"bad:extensions-answered-{extsObs}-offered-and-accepted-{exp}"
                else "ok"
              | _, _, _ => "ok"
    else if err.startsWith "io:" then (if is101 then "bad:101-written-on-failure" else "ok")
    else
      if is101 then "bad:101-written-on-failure"
      else
        -- completeness (only where the statement is unambiguous)
        let must := r.complete && !r.malformed && allOcc r && r.method == strBytes "GET" && vok == some true && !cbRej && !hasSel && !hasExt
        if must then s!"bad:compliant-request-refused-{err}"
        else if wr.isEmpty then
          -- allowed only when the request line itself did not parse
          (if zeroCopy && err == "hs:ErrMalformedRequest" && !reqLineClearlyParses reqBytes then "ok" else "bad:no-error-response")
        else
          let code := natOr (bytesToString ((wr.drop 9).take 3))
          let cl := (respHeader wr "Content-Length").map (fun b => natOr (bytesToString b))
          -- the statuses the configured callbacks may choose (none chosen: 500)
          let chosen := ([cfg.onRequest, cfg.onHost, cfg.onHeader, (match cfg.onBeforeUpgrade with | some (.inr e) => some e | _ => none)].filterMap id).map
            fun (e : HsErr) => if e.code == 0 then 500 else e.code
          if wr.take 9 != strBytes "HTTP/1.1 " then "bad:error-response-status-line"
          else if !(allDigits ((wr.drop 9).take 3) && wr.getD 12 0 == 32) || code < 400 || code > 599 then "bad:error-response-status-not-an-HTTP-error-code"
          else if (err == "hs:cb" || err == "hs:plain") && !chosen.contains code then "bad:rejection-status-not-the-callbacks"
          else if cl != some (respBody wr).length then "bad:error-response-content-length"
          else if code == 426 && respHeader wr "Sec-WebSocket-Version" != some (strBytes "13") then "bad:426-without-version-header"
          else if cfg.header != [] && zeroCopy && !contains wr cfg.header then "bad:extra-headers-missing"
          else if err.startsWith "hs:Err" && !(code == 400 || code == 405 || code == 426 || code == 505 || code == 500) then "bad:builtin-error-status"
          else "ok"

def c09up (a : List String) (obs : String) : String × String :=
  match a with
  | [cfgS, req, k, fin] =>
    let cfg := parseUpCfg cfgS
    let s := mkSrc2 req k fin
    let (hs, e, wr, b) := upgrade cfg s
    let pos := s.bytes.length - b.src.bytes.length
    let model := s!"{upErrStr e} proto={Bytes.toHex hs.protocol} exts={optsStr hs.extensions} written={Bytes.toHex wr} pos={pos}"
    let f := obs.splitOn " "
    let get (k : String) : String := ((f.filter (·.startsWith (k ++ "="))).headD "").drop (k.length + 1) |>.toString
    (model, judgeUpgrade cfg (hexOr req) (f.headD "") (get "proto") (get "written") true (get "exts"))
  | _ => ("BADOP", "skip")

def parseAReq (s : String) : AReq :=
  match s.splitOn ";" with
  | m :: ma :: mi :: h :: hs =>
    { method := hexOr m, major := natOr ma, minor := natOr mi, host := hexOr h,
      headers := hs.map fun kv => match kv.splitOn "=" with
        | [k, vs] => (hexOr k, if vs == "" then [] else (vs.splitOn "+").map hexOr)
        | _ => ([], []) }
  | _ => ⟨[], 0, 0, [], []⟩

def c09hup (a : List String) (obs : String) : String × String :=
  match a with
  | [cfgS, req] =>
    if obs.startsWith "SKIP" then (obs, "skip") else
    let cfg := { parseUpCfg cfgS with header := [], onRequest := none, onHost := none, onHeader := none, onBeforeUpgrade := none }
    let f := obs.splitOn " "
    let get (k : String) : String := ((f.filter (·.startsWith (k ++ "="))).headD "").drop (k.length + 1) |>.toString
    let ar := parseAReq (get "areq")
    let (hs, e, wr) := httpUpgrade cfg ar
    let model := s!"{upErrStr (e.map .hs)} proto={Bytes.toHex hs.protocol} exts={optsStr hs.extensions} written={Bytes.toHex wr} areq={get "areq"}"
    (model, judgeUpgrade cfg (hexOr req) (f.headD "") (get "proto") (get "written") false (get "exts"))
  | _ => ("BADOP", "skip")

/-- Both upgraders with an application Negotiate callback that rejects (the model knows only the wsflate
    negotiator: the observation is judged, not predicted): each response carries the callback's status (500 when it
    chose none), its extra header, a Content-Length equal to the body, and the body is the reason. -/
def c09upnr (a : List String) (obs : String) : String × String :=
  match a with
  | [code, reasonHex, hdrHex, _req] =>
    let want := if code == "r0" || code == "0" then 500 else natOr code
    let reason := hexOr reasonHex
    let hdr := if hdrHex == "-" then [] else hexOr hdrHex
    let judge (errCls written : String) : Option String :=
      let wr := hexOr written
      let st := natOr (bytesToString ((wr.drop 9).take 3))
      if errCls == "nil" then some "upgrade-succeeded-although-the-negotiator-rejected"
      else if st != want then some s!"status-{st}-not-the-callbacks-{want}"
      else if hdr != [] && !contains wr hdr then some "rejection-header-missing"
      else if (respHeader wr "Content-Length").map (fun b => natOr (bytesToString b)) != some (respBody wr).length then some "content-length"
      else if respBody wr != reason then some "body-not-the-reason"
      else none
    let f := obs.splitOn " "
    let get (k : String) : String := ((f.filter (·.startsWith (k ++ "="))).headD "").drop (k.length + 1) |>.toString
    let v1 := judge (f.headD "") (get "written")
    let v2 := if (get "h") == "" then none else judge (get "h") (get "hwritten")
    (obs, match v1, v2 with
      | some e, _ => s!"bad:Upgrader:{e}"
      | none, some e => s!"bad:HTTPUpgrader:{e}"
      | none, none => "ok")
  | _ => ("BADOP", "skip")

/-- HTTPUpgrader with a connection that refuses every write: no handshake has taken place, so success is never
    reported (the model has no failing connection: the observation is judged, not predicted). -/
def c09hupw (_a : List String) (obs : String) : String × String :=
  if obs.startsWith "SKIP" then (obs, "skip") else
  (obs, if obs.startsWith "nil " then "bad:success-reported-although-the-response-could-not-be-written" else "ok")

end Ws.Driver
