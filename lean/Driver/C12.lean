import Driver.C11
import WsVerif.Model.Flate
import WsVerif.Model.FlateFrame
namespace Ws.Driver
open Ws Ws.Spec

def flErrStr : Option FlErr → String
  | none => "nil" | some .dst => "dst" | some .badTail => "badtail" | some .comp => "comp"

def hexOrEmpty (s : String) : Bytes := if s == "-" then [] else hexOr s

/-- the pieces a scripted compressor forwards for one Write(p) -/
def splitBy (p : Bytes) (sizes : List Nat) : List Bytes :=
  let (chunks, rest) := sizes.foldl (fun (acc : List Bytes × Bytes) s =>
    let s := min s acc.2.length
    if s == 0 then acc else (acc.1 ++ [acc.2.take s], acc.2.drop s)) ([], p)
  if rest.isEmpty then chunks else chunks ++ [rest]

def c12cw (a : List String) (_obs : String) : String × String :=
  match a with
  | [ft, ct, fa, script] =>
    let ftail := hexOrEmpty ft
    let closer := ct != "-"
    let ctail := if closer then hexOrEmpty ct else []
    let failAt : Option Nat := if fa.startsWith "-" then none else some (natOr fa)
    let w0 : FlWr := { cbuf := { dst := { failAt := failAt } } }
    let (w, res) := (script.splitOn ";").foldl (fun (st : FlWr × List String) it =>
      let (w, res) := st
      if it.startsWith "w" then
        match ((it.drop 1).toString).splitOn "/" with
        | [d, sp] =>
          let sizes := if sp == "" then [] else (sp.splitOn "+").map natOr
          let (e, w') := w.write (splitBy (hexOrEmpty d) sizes)
          (w', res ++ [flErrStr e])
        | _ => (w, res ++ ["?"])
      else if it == "f" then
        let (e, w') := w.flush (if ftail.isEmpty then [] else [ftail])
        (w', res ++ [flErrStr e])
      else if it == "c" then
        -- a compressor without Close: Close only checks the tail
        let (e, w') := w.flush (if closer && !ctail.isEmpty then [ctail] else [])
        (w', res ++ [flErrStr e])
      else (w.reset {}, res ++ ["reset"])) (w0, [])
    let model := s!"{",".intercalate res} out={Bytes.toHex w.cbuf.dst.bytes} calls={w.cbuf.dst.calls}"
    -- oracle (flat, no cbuf): the compressor's output since the last reset is `total`; a flush/close
    -- succeeds iff total ends in 00 00 ff ff; errors are sticky until reset; what reached the
    -- destination is total without its last min(4, |total|) bytes
    let verdict :=
      if failAt.isSome then "ok" else
      let (total, err, exp) := (script.splitOn ";").foldl (fun (st : Bytes × Bool × List String) it =>
        let (total, err, exp) := st
        if it == "r" then ([], false, exp ++ ["reset"])
        else if err then (total, err, exp ++ ["badtail"])
        else if it.startsWith "w" then
          (total ++ hexOrEmpty (((it.drop 1).toString.splitOn "/").headD ""), false, exp ++ ["nil"])
        else
          let t := total ++ (if it == "f" then ftail else ctail)
          let good := t.length ≥ 4 && t.drop (t.length - 4) == [0, 0, 255, 255]
          (t, !good, exp ++ [if good then "nil" else "badtail"])) ([], false, [])
      let obsRes := (_obs.splitOn " ").headD ""
      if obsRes != ",".intercalate exp then "bad:flush-close-results-do-not-follow-the-tail-rule"
      else if !err && hexOrEmpty (getF _obs "out") != total.take (total.length - min 4 total.length) then "bad:destination-is-not-output-minus-tail"
      else "ok"
    (model, verdict)
  | _ => ("BADOP", "skip")

def c12sr (a : List String) (_obs : String) : String × String :=
  match a with
  | [src, k, fin, _br, sizes] =>
    let s := srcOf (hexOrEmpty src) (natOr k) fin
    let rec go (fuel : Nat) (r : SufRd) (ks : List Nat) (acc : Bytes) : String × Bytes :=
      match fuel, ks with
      | 0, _ => ("more", acc)
      | _, [] => ("more", acc)
      | fuel + 1, k :: ks =>
        match r.read k with
        | (got, some .eof, _) => ("eof", acc ++ got)
        | (got, some .fail, _) => ("fail", acc ++ got)
        | (got, none, r') => go fuel r' ks (acc ++ got)
    let (e, out) := go 1000 { src := some s } ((sizes.splitOn "+").map natOr) []
    -- oracle (flat): at EOF everything delivered is source ++ 00 00 ff ff 01 00 00 ff ff; before it, a prefix
    let want := hexOrEmpty src ++ [0, 0, 255, 255, 1, 0, 0, 255, 255]
    let got := hexOrEmpty (getF _obs "got")
    let st := (_obs.splitOn " ").headD ""
    let verdict :=
      if st == "eof" && got != want then "bad:suffixed-stream-is-not-source-plus-tail"
      else if want.take got.length != got then "bad:suffixed-stream-is-not-a-prefix-of-source-plus-tail"
      else "ok"
    (s!"{e} got={Bytes.toHex out}", verdict)
  | _ => ("BADOP", "skip")

/-- the suffixed reader over a source that is idle ((0, nil)) before every chunk: judged by the flat oracle only -/
def c12srz (a : List String) (obs : String) : String × String :=
  match a with
  | [src, _k, _fin, _br, _sizes] =>
    let want := hexOrEmpty src ++ [0, 0, 255, 255, 1, 0, 0, 255, 255]
    let got := hexOrEmpty (getF obs "got")
    let st := (obs.splitOn " ").headD ""
    let verdict :=
      if st == "eof" && got != want then "bad:suffixed-stream-is-not-source-plus-tail"
      else if want.take got.length != got then "bad:suffixed-stream-is-not-a-prefix-of-source-plus-tail"
      else if st == "more" then "bad:suffixed-stream-never-ends"
      else "ok"
    (obs, verdict)
  | _ => ("BADOP", "skip")

def endStr : InflateEnd → String
  | .final => "final" | .boundary => "boundary" | .truncated => "truncated" | .corrupt w => "corrupt:" ++ w

/-- the message a script writes -/
def scriptMsg (script : String) : Bytes :=
  ((script.splitOn ";").filter (·.startsWith "w")).flatMap fun it => hexOrEmpty (it.drop 1).toString

def c12fl (a : List String) (obs : String) : String × String :=
  match a with
  | [_lv, script, _k, _br] =>
    let out := hexOrEmpty (getF obs "out")
    let msg := scriptMsg script
    let steps := (script.splitOn ";").length
    -- model of wsflate.Reader over flate's reader: inflate (out ++ 9-byte tail)
    let (back, e) := flRead out
    let model := s!"{",".intercalate (List.replicate steps "nil")} out={getF obs "out"} back={Bytes.toHex back} rerr={if e == .final then "nil" else endStr e} hback={Bytes.toHex back} herr={if e == .final then "nil" else endStr e}"
    -- independent decoder on the library's output with the RFC 7692 tail appended
    let (plain, e2) := inflate (out ++ compressionTail)
    let verdict :=
      if plain != msg then "bad:output+tail-does-not-inflate-to-the-message"
      else if !(e2 == .boundary || e2 == .final) then s!"bad:output+tail-is-not-a-complete-deflate-stream-{endStr e2}"
      else if hexOrEmpty (getF obs "back") != msg then "bad:reader-does-not-recover-the-message"
      else if getF obs "rerr" != "nil" then "bad:reader-error-on-own-output"
      else if hexOrEmpty (getF obs "hback") != msg || getF obs "herr" != "nil" then "bad:Decompress-helper-does-not-recover-the-message"
      else "ok"
    (model, verdict)
  | _ => ("BADOP", "skip")

def c12ind (a : List String) (obs : String) : String × String :=
  match a with
  | [_enc, msgS, _k, _br] =>
    let comp := hexOrEmpty (getF obs "comp")
    let msg := hexOrEmpty msgS
    let (back, e) := flRead comp
    let model := s!"comp={getF obs "comp"} back={Bytes.toHex back} rerr={if e == .final then "nil" else endStr e}"
    let (plain, _) := inflate (comp ++ compressionTail)
    let verdict :=
      if plain != msg then "skip"       -- the harness's own encoder is wrong: not the library's problem
      else if hexOrEmpty (getF obs "back") != msg || getF obs "rerr" != "nil" then "bad:reader-fails-on-independent-encoder-output"
      else "ok"
    (model, verdict)
  | _ => ("BADOP", "skip")

def c12indr (a : List String) (obs : String) : String × String :=
  match a with
  | [_enc, m1, m2, _kind] =>
    let c1 := hexOrEmpty (getF obs "comp1")
    let c2 := hexOrEmpty (getF obs "comp2")
    let (b1, e1) := flRead c1
    let (b2, e2) := flRead c2
    let model := s!"comp1={getF obs "comp1"} comp2={getF obs "comp2"} back1={Bytes.toHex b1} rerr1={if e1 == .final then "nil" else endStr e1} back2={Bytes.toHex b2} rerr2={if e2 == .final then "nil" else endStr e2}"
    let (p1, _) := inflate (c1 ++ compressionTail)
    let (p2, _) := inflate (c2 ++ compressionTail)
    let verdict :=
      if p1 != hexOrEmpty m1 || p2 != hexOrEmpty m2 then "skip"
      else if hexOrEmpty (getF obs "back1") != p1 || getF obs "rerr1" != "nil" then "bad:reader-fails-on-independent-encoder-output"
      else if hexOrEmpty (getF obs "back2") != p2 || getF obs "rerr2" != "nil" then "bad:reused-reader-does-not-recover-the-next-message"
      else "ok"
    (model, verdict)
  | _ => ("BADOP", "skip")

/-- flr: each of the two messages written through one (Reset) compression writer inflates on its own. -/
def c12flr (a : List String) (obs : String) : String × String :=
  match a with
  | [_lv, _hide, m1, m2, _how] =>
    let o1 := hexOrEmpty (getF obs "out1")
    let o2 := hexOrEmpty (getF obs "out2")
    let model := s!"nil,nil,nil,nil out1={getF obs "out1"} out2={getF obs "out2"}"
    let (p1, e1) := inflate (o1 ++ compressionTail)
    let (p2, e2) := inflate (o2 ++ compressionTail)
    let verdict :=
      if p1 != hexOrEmpty m1 || !(e1 == .boundary || e1 == .final) then "bad:output+tail-does-not-inflate-to-the-message"
      else if p2 != hexOrEmpty m2 || !(e2 == .boundary || e2 == .final) then "bad:message-after-Reset-does-not-inflate-on-its-own"
      else "ok"
    (model, verdict)
  | _ => ("BADOP", "skip")

def helperErrStr : HelperErr → String
  | .fragmented => "fragmented" | .bit => "bit" | .codec => "codec"

/-- the decompressor of the default helper, as the model sees it: flate's reader over the suffixed source -/
def flDecomp (c : Bytes) : Option Bytes :=
  let (b, e) := flRead c
  if e == .final then some b else none

/-- df: model = decompressFrame over flRead; oracle = the property's words (non-final refused; the bit on a
    control or continuation frame refused; otherwise the payload an independent decoder gives and the header
    with only the compression bit and the length changed). -/
def c12df (a : List String) (obs : String) : String × String :=
  match a with
  | [fin, rsv, op, pay] =>
    let wire := hexOrEmpty (getF obs "wire")
    let plain := hexOrEmpty pay
    let rsvN := natOr rsv
    let opN := natOr op
    let h : Header := { fin := fin == "1", rsv := rsvN, op := opN, masked := false, mask := Mask.zero, len := wire.length }
    let model :=
      match decompressFrame flDecomp h wire with
      | .error e => s!"derr={helperErrStr e} wire={getF obs "wire"}"
      | .ok (h', p) => s!"derr=nil wire={getF obs "wire"} dhdr={hdrStr h'} dpay={Bytes.toHex p}"
    let bit := rsvN / 4 % 2 == 1
    let first := opN == 1 || opN == 2
    let verdict :=
      if fin != "1" then (if getF obs "derr" == "nil" then "bad:non-final-frame-not-refused" else "ok")
      else if bit && !first then (if getF obs "derr" == "nil" then "bad:compression-bit-accepted-on-control-or-continuation" else "ok")
      else if getF obs "derr" != "nil" then "bad:valid-frame-refused"
      else if !bit then
        (if getF obs "dhdr" == hdrStr h && hexOrEmpty (getF obs "dpay") == wire then "ok" else "bad:plain-frame-changed")
      else
        let (p, _) := inflate (wire ++ compressionTail)
        if p != plain then "skip"
        else if hexOrEmpty (getF obs "dpay") != plain then "bad:decompressed-payload"
        else if getF obs "dhdr" != hdrStr { h with rsv := rsvN - 4, len := plain.length } then "bad:decompressed-header"
        else "ok"
    (model, verdict)
  | _ => ("BADOP", "skip")

def c12cf (a : List String) (obs : String) : String × String :=
  match a with
  | [fin, rsv, op, masked, pay] =>
    let payload := hexOrEmpty pay
    let rsvN := natOr rsv
    if fin != "1" then
      ("cerr=other:wsflate:_fragmented_messages_are_not_allowed", if (getF obs "cerr") == "nil" then "bad:non-final-frame-compressed" else "ok")
    else if rsvN / 4 % 2 == 1 then
      (obs, if getF obs "cerr" == "nil" then "bad:already-compressed-frame-compressed-again" else "ok")
    else
      let cpay := hexOrEmpty (getF obs "cpay")
      let h0 : Header := { fin := true, rsv := rsvN, op := natOr op, masked := masked == "1", mask := if masked == "1" then ⟨1, 2, 3, 4⟩ else Mask.zero, len := payload.length }
      let hc : Header := { h0 with rsv := rsvN + 4, len := cpay.length }
      -- model: compressFrame with the observed compressor output, then decompressFrame over flRead
      let model :=
        match compressFrame (fun _ => some cpay) h0 payload with
        | .error e => s!"cerr={helperErrStr e}"
        | .ok (hm, cm) =>
          match decompressFrame flDecomp hm cm with
          | .error e => s!"cerr=nil chdr={hdrStr hm} cpay={Bytes.toHex cm} derr={helperErrStr e}"
          | .ok (hd, pd) => s!"cerr=nil chdr={hdrStr hm} cpay={Bytes.toHex cm} derr=nil dhdr={hdrStr hd} dpay={Bytes.toHex pd}"
      let (plain, _) := inflate (cpay ++ compressionTail)
      let verdict :=
        if getF obs "cerr" != "nil" then "bad:final-frame-not-compressed"
        else if plain != payload then "bad:compressed-frame-payload-does-not-inflate"
        else if getF obs "chdr" != hdrStr hc then "bad:compressed-frame-header"
        else if getF obs "derr" != "nil" || getF obs "dhdr" != hdrStr h0 || hexOrEmpty (getF obs "dpay") != payload then "bad:frame-roundtrip"
        else "ok"
      (model, verdict)
  | _ => ("BADOP", "skip")

def c12badc (a : List String) (obs : String) : String × String :=
  match a with
  | [mode, pay] =>
    let p := hexOrEmpty pay
    let ftail : Bytes := match mode with
      | "notail" => [] | "wrongtail" => [0, 0, 255, 254] | "shorttail" => [255, 255] | _ => [0, 0, 255, 255]
    let ctail : Bytes := match mode with
      | "closeextra" => [3, 0] | "closesum" => [0x12, 0x34, 0x56, 0x78] | "closegood" => [1, 0, 0, 255, 255] | _ => []
    let w0 : FlWr := {}
    let (e1, w1) := w0.write (if p.isEmpty then [] else [p])
    let (e2, w2) := w1.flush (if ftail.isEmpty then [] else [ftail])
    let (e3, w3) := w2.flush (if ctail.isEmpty then [] else [ctail])
    let e := match e1, e2, e3 with
      | some e, _, _ => some e | none, some e, _ => some e | none, none, e => e
    let model := s!"{flErrStr e} out={if e.isSome then "-" else Bytes.toHex w3.cbuf.dst.bytes}"
    let total := p ++ ftail ++ ctail
    let endsOk := total.length ≥ 4 && total.drop (total.length - 4) == [0, 0, 255, 255]
    let verdict :=
      if !endsOk && (obs.splitOn " ").headD "" == "nil" then "bad:compressor-without-tail-not-reported"
      else if endsOk && (obs.splitOn " ").headD "" != "nil" then "bad:good-compressor-refused"
      else "ok"
    (model, verdict)
  | _ => ("BADOP", "skip")

end Ws.Driver
