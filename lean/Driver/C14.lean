import Driver.Util
import WsVerif.Model.Negotiate
import WsVerif.Spec.Negotiate
namespace Ws.Driver
open Ws Ws.Spec

def parseCfg14 (s : String) : Params :=
  match s.splitOn "," with
  | [a, b, c, d] => { snct := a == "1", cnct := b == "1", smwb := natOr c, cmwb := natOr d }
  | _ => {}

def paramsStr (p : Params) : String := s!"{b2s p.snct},{b2s p.cnct},{p.smwb},{p.cmwb}"

def parseOptItem (item : String) : Opt :=
  match item.splitOn ":" with
  | [n, ps] =>
    ⟨hexOr n, if ps == "" then [] else (ps.splitOn ",").map fun kv =>
      match kv.splitOn "=" with
      | [k, v] => (hexOr k, hexOr v)
      | _ => ([], [])⟩
  | _ => ⟨[], []⟩

def hexE (b : Bytes) : String := Bytes.toHex b

def optStr (o : Opt) : String :=
  hexE o.name ++ ":" ++ ",".intercalate (o.params.map fun (k, v) => hexE k ++ "=" ++ hexE v)

def perrStr : PErr → String
  | .duplicate k => "duplicate:" ++ hexE k
  | .invalid k => "invalid:" ++ hexE k
  | .unexpected k => "unexpected:" ++ hexE k

def hasLeadingZero (ps : List (Bytes × Bytes)) : Bool :=
  ps.any fun (_, v) => v.length > 1 && v.head? == some 48

def c14neg (a : List String) (obs : String) : String × String :=
  match a with
  | cfgS :: items =>
    let cfg := parseCfg14 cfgS
    -- model
    -- "cfg=<s,c,sb,cb>": the owner sets Extension.Parameters between upgrades; Negotiate reads it afresh
    let (outs, st, _) := items.foldl (fun (acc : List String × NegSt × Params) it =>
      if it == "reset" then (acc.1 ++ ["reset"], acc.2.1.reset, acc.2.2) else
      if it.startsWith "cfg=" then (acc.1 ++ ["cfg"], acc.2.1, parseCfg14 (it.drop 4).toString) else
      let (r, st') := negotiate acc.2.2 acc.2.1 (parseOptItem it)
      let s := match r with
        | .none_ => "none"
        | .accept o => "acc:" ++ optStr o
        | .error e => "err:" ++ perrStr e
        | .panic => "PANIC"
      (acc.1 ++ [s], st', acc.2.2)) ([], {}, cfg)
    let solo := String.mk ((items.foldl (fun (acc : List Char × Params) it =>
      if it == "reset" then (acc.1 ++ ['r'], acc.2) else
      if it.startsWith "cfg=" then (acc.1 ++ ['c'], parseCfg14 (it.drop 4).toString) else
      (acc.1 ++ [match (negotiate acc.2 {} (parseOptItem it)).1 with
        | .accept _ => '1' | .error _ => 'e' | _ => '0'], acc.2)) ([], cfg)).1)
    let soloAns := (items.foldl (fun (acc : List String × Params) it =>
      if it == "reset" then (acc.1 ++ ["-"], acc.2) else
      if it.startsWith "cfg=" then (acc.1 ++ ["-"], parseCfg14 (it.drop 4).toString) else
      (acc.1 ++ [match (negotiate acc.2 {} (parseOptItem it)).1 with
        | .accept o => optStr o | _ => "-"], acc.2)) ([], cfg)).1
    let model := s!"{";".intercalate outs} acc={b2s st.accepted}:{paramsStr st.params} solo={solo} soloans={";".intercalate soloAns}"
    let obsSolo := ((((obs.splitOn " solo=").getD 1 "").splitOn " ").headD "").toList
    let obsSoloAns := ((obs.splitOn " soloans=").getD 1 "").splitOn ";"
    -- oracle
    let obsItems := ((obs.splitOn " acc=").headD "").splitOn ";"
    let obsFlag := ((obs.splitOn " acc=").getD 1 "").startsWith "1"
    -- metamorphic: while nothing is accepted yet, each offer must be treated as it is when offered
    -- alone to a fresh negotiator (so the accepted one is the FIRST acceptable one)
    let rec first (obsI : List String) (solo : List Char) (sans : List String) (accepted : Bool) : Option String :=
      match obsI, solo with
      | o :: os', c :: cs =>
        if c == 'r' then first os' cs (sans.drop 1) false
        else if c == 'c' then first os' cs (sans.drop 1) accepted
        else if accepted then first os' cs (sans.drop 1) true
        else if c == '1' && !o.startsWith "acc:" then some "bad:acceptable-offer-not-accepted-after-earlier-offers"
        -- (also after Reset and a change of Parameters: the answer is the one a NEW negotiator with the parameters it
        --  has now gives to this offer)
        else if c == '1' && o != "acc:" ++ sans.headD "?" then some "bad:answer-differs-from-a-new-negotiator's"
        else if c == '0' && o != "none" then some "bad:offer-treated-differently-than-alone"
        else if c == 'e' && !o.startsWith "err:" then some "bad:offer-treated-differently-than-alone"
        else first os' cs (sans.drop 1) (o.startsWith "acc:")
      | _, _ => none
    let rec judge (its obsI : List String) (accepted : Bool) : String :=
      match its, obsI with
      | [], _ | _, [] =>
        if obsFlag != accepted then "bad:Accepted()-flag"
        else (first obsItems obsSolo obsSoloAns false).getD "ok"
      | it :: its', o :: os' =>
        if it == "reset" then judge its' os' false else
        if it.startsWith "cfg=" then judge its' os' accepted else
        if o.startsWith "PANIC" then "bad:panic" else
        let opt := parseOptItem it
        if opt.name != extName then (if o == "none" then judge its' os' accepted else "bad:foreign-extension-answered")
        else if accepted then (if o == "none" then judge its' os' accepted else "bad:second-offer-answered")
        else if hasLeadingZero opt.params then judge its' os' (accepted || o.startsWith "acc:")
        else if !wellFormedParams opt.params then
          (if o.startsWith "err:" then judge its' os' accepted else "bad:malformed-offer-not-rejected-as-error")
        else if o.startsWith "err:" then "bad:well-formed-offer-rejected-as-error"
        else if o == "none" then judge its' os' accepted
        else
          let ans := parseOptItem (o.drop 4).toString
          match parseParams opt.params, (if wellFormedParams ans.params then parseParams ans.params else .error (.invalid [])) with
          | .ok offer, .ok answer =>
            if ans.name != extName then "bad:answer-name"
            else if decide (LegalAnswer offer answer) then judge its' os' true else "bad:answer-not-legal-per-RFC7692-7.1"
          | _, _ => "bad:answer-does-not-parse"
    (model, judge items obsItems false)
  | _ => ("BADOP", "skip")

def c14popt (a : List String) (obs : String) : String × String :=
  match a with
  | [cfgS] =>
    let cfg := parseCfg14 cfgS
    match cfg.option with
    | none => ("PANIC", if obs.startsWith "PANIC" then "ok" else "bad:expected-panic")
    | some o =>
      let (e, q) := parseParamsFull o.params
      let model := s!"{optStr o} {match e with | none => "nil" | some e => perrStr e} {paramsStr q}"
      -- oracle: encoding then parsing is the identity
      let f := obs.splitOn " "
      (model, if f.getD 1 "" == "nil" && f.getD 2 "" == cfgS then "ok" else "bad:Option-then-Parse-not-identity")
  | _ => ("BADOP", "skip")

end Ws.Driver
