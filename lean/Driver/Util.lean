/- Line-protocol helpers for the model driver (core Lean only). -/
import WsVerif.Base
import WsVerif.Model.Header
namespace Ws.Driver
open Ws

def hexOr (s : String) : Bytes := (Bytes.ofHex? s).getD []

def natOr (s : String) : Nat := s.toNat?.getD 0

def chunksOf (k : Nat) (bs : Bytes) : List Bytes :=
  if k = 0 then (if bs.isEmpty then [] else [bs]) else go k bs bs.length
where
  go (k : Nat) (bs : Bytes) : Nat → List Bytes
    | 0 => []
    | fuel + 1 => if bs.isEmpty then [] else bs.take k :: go k (bs.drop k) fuel

def mkSrc (hex : String) (k : String) (fin : String) : Src :=
  { chunks := chunksOf (natOr k) (hexOr hex), fin := if fin == "F" then .fail else .eof }

def b2s (b : Bool) : String := if b then "1" else "0"

def maskHex (m : Mask) : String := Bytes.toHex m.toList

def hdrStr (h : Header) : String :=
  s!"{b2s h.fin},{h.rsv},{h.op},{b2s h.masked},{maskHex h.mask},{h.len}"

def rdErrStr : RdErr → String
  | .eof => "eof" | .ueof => "ueof" | .fail => "fail"

def hdrErrStr : HdrErr → String
  | .io e => rdErrStr e
  | .lengthMSB => "msb"
  | .lengthUnexpected => "unexpected"
  | .fault => "FAULT"

def parseHeader (a : List String) : Header :=
  match a with
  | f :: r :: o :: m :: k :: l :: _ =>
    let kb := hexOr k
    { fin := f == "1", rsv := natOr r, op := natOr o, masked := m == "1",
      mask := ⟨kb.getD 0 0, kb.getD 1 0, kb.getD 2 0, kb.getD 3 0⟩, len := natOr l }
  | _ => default

end Ws.Driver
