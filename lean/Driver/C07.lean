import Driver.Util
import Driver.C02
import WsVerif.Model.Utf8
import WsVerif.Spec.Utf8
namespace Ws.Driver
open Ws Ws.Spec

partial def u8Loop (u : Utf8Rd) (s : Src) (sizes : Array Nat) (i total : Nat) : String :=
  if i ≥ 100000 then "LOOP" else
  match u.read s (sizes[i % sizes.size]!) with
  | none => "PANIC"
  | some (n, bad, e, u', s') =>
    if bad then s!"{total + n} utf8 valid={b2s u'.valid} accepted={u'.accepted}"
    else match e with
      | some f => s!"{total + n} {finStr f} valid={b2s u'.valid} accepted={u'.accepted}"
      | none => u8Loop u' s' sizes (i + 1) (total + n)

def c07u8 (a : List String) (obs : String) : String × String :=
  match a with
  | [hex, k, sizes, fin] =>
    let s := mkSrc2 hex k fin
    let bs := hexOr hex
    let sz := ((parseInts sizes).map Int.toNat).toArray
    let wf := wfUtf8 bs
    -- third opinion: Lean core's own UTF-8 validator
    let core := String.validateUTF8 (ByteArray.mk (bs.map (·.toUInt8)).toArray)
    let model := s!"{u8Loop {} s sz 0 0} gv={b2s wf}"
    let f := obs.splitOn " "
    let cls := f.getD 1 ""
    let valid := f.getD 2 "" == "valid=1"
    let gv := f.getD 4 "" == "gv=1"
    let verdict :=
      if core != wf then "bad:spec-disagrees-with-lean-core-validator"
      else if gv != wf then "bad:go-utf8.Valid-disagrees-with-Table-3-7"
      else if cls == "utf8" then (if wf then "bad:valid-string-reported-invalid" else "ok")
      else if cls == "eof" then (if valid == wf then "ok" else "bad:Valid()-differs-from-Table-3-7")
      else if cls == "fail" then "ok"
      else "bad:unexpected-class"
    (model, verdict)
  | _ => ("BADOP", "skip")

/-- CheckUTF8 reader with an OnContinuation handler that consumes the continuation frames: judged, not predicted
    (the model has no OnContinuation) — delivered iff the whole text is well-formed. -/
def c07rdoc (a : List String) (obs : String) : String × String :=
  match a with
  | [_st, _stream, _k, text] =>
    let t := hexOr text
    let f := obs.splitOn " "
    let cls := f.headD ""
    let verdict :=
      if obs.startsWith "PANIC" then "bad:panic"
      else if wfUtf8 t then
        (if cls == "utf8" then "bad:valid-text-reported-invalid"
         else if cls != "nil" then "bad:unexpected-error-class-" ++ cls
         else if hexOr (f.getD 1 "") != t then "bad:delivered-bytes-differ-from-the-text" else "ok")
      else (if cls == "utf8" then "ok" else "bad:invalid-text-accepted")
    (obs, verdict)
  | _ => ("BADOP", "skip")

/-- UTF8Reader.Reset(src) puts the reader back into its initial state (`{}`), so each stream is
    read by a fresh model reader; the oracle judges each stream on its own bytes. -/
def c07u8r (a : List String) (obs : String) : String × String :=
  match a with
  | [hexs, k, sizes, fin] =>
    let streams := (hexs.splitOn "/").map fun h => if h == "-" then "" else h
    let sz := ((parseInts sizes).map Int.toNat).toArray
    let one (hex : String) : String :=
      let s := mkSrc2 (if hex == "" then "-" else hex) k fin
      let r := (u8Loop {} s sz 0 0).replace " " ","
      s!"{r},gv={b2s (wfUtf8 (hexOr hex))}"
    let model := "|".intercalate (streams.map one)
    let judge (hex item : String) : Option String :=
      let wf := wfUtf8 (hexOr hex)
      let f := item.splitOn ","
      let cls := f.getD 1 ""
      let valid := f.getD 2 "" == "valid=1"
      if (f.getD 4 "" == "gv=1") != wf then some "go-utf8.Valid-disagrees-with-Table-3-7"
      else if cls == "utf8" then (if wf then some "valid-stream-reported-invalid-after-Reset" else none)
      else if cls == "eof" then (if valid == wf then none else some "Valid()-after-Reset-differs-from-Table-3-7")
      else if cls == "fail" then none
      else some "unexpected-class"
    let items := obs.splitOn "|"
    let verdict :=
      if items.length != streams.length then "bad:format"
      else match (streams.zip items).filterMap fun (h, it) => judge h it with
        | [] => "ok"
        | e :: _ => s!"bad:{e}"
    (model, verdict)
  | _ => ("BADOP", "skip")

end Ws.Driver
