import Driver.C17
import WsVerif.Model.Pools
namespace Ws.Driver
open Ws Ws.Pools

/-- C19. The model's prediction for any session mix and any schedule is the theorem
    `C19.same_as_alone`: every session observes what it observes alone, and (the part the model
    cannot exhibit) no data race is reported. As a sanity tie the driver also runs the pool model
    itself on a round-robin schedule of `N` copies of the two library program shapes and reports
    whether every session's history equals its heap-free solo computation. -/
def poolModelAgrees (n : Nat) : Bool :=
  let prog (i : Nat) : List Act :=
    if i % 2 == 0 then
      [.get, .get, .fill 1 (fun _ => [i, i + 1, i + 2]), .read 1, .fill 0 (fun h => h.flatten.reverse), .read 0, .put, .put]
    else [.get, .fill 0 (fun _ => [i]), .fill 0 (fun _ => [i ^^^ 5]), .read 0, .put]
  let progs := (List.range n).map prog
  let sched := (List.range 9).flatMap fun _ => List.range n
  let w := (World.init progs [] 0 (fun _ => [0xAA])).run sched
  (List.range n).all fun i => (w.ss i).todo.isEmpty && (w.ss i).hist == (symRun (prog i)).hist

def c19conc (a : List String) (obs : String) : String × String :=
  if obs.startsWith "SKIP" then (obs, "skip") else
  match a with
  | [n, _procs, _seed, _mix, _rounds] =>
    let agree := poolModelAgrees (min (natOr n) 16)
    let model := s!"same={if agree then 1 else 0} self=1 races=0 diff=- race=- sessions={n} ops={getF obs "ops"}"
    let verdict :=
      if obs.startsWith "CRASH" || obs.startsWith "HANG" || obs.startsWith "BADOUT" || obs.startsWith "PANIC" then "bad:session-crashed-or-hung"
      else if getF obs "races" != "0" then "bad:data-race-reported"
      else if getF obs "same" != "1" then "bad:session-observed-something-else-than-alone"
      else if getF obs "self" != "1" then "bad:session-result-is-not-what-it-negotiated-or-sent"
      else "ok"
    (model, verdict)
  | _ => ("BADOP", "skip")

end Ws.Driver
