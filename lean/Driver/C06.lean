import Driver.Util
import Driver.C02
import WsVerif.Model.Writer
import WsVerif.Spec.Header
import WsVerif.Spec.Cipher
namespace Ws.Driver
open Ws Ws.Spec

def werrStr : Option WErr → String
  | none => "nil"
  | some .dest => "dfail"
  | some .notEmpty => "notempty"
  | some .noProgress => "noprogress"
  | some .srcFail => "fail"
  | some .ctlOverflow => "ctloverflow"

def parseExt (s : String) : Option Bool :=
  if s.startsWith "c0" then some false else if s.startsWith "c1" then some true else none

def parseMasks (obs : String) : List Mask :=
  match obs.splitOn " masks=" with
  | [_, ms] => (ms.splitOn ",").map parseMask
  | _ => []

def mkWr (client : Bool) (op : Nat) (ctor : String) : Option Wr :=
  match ctor.splitOn ":" with
  | ["new"] => newWriter client op
  | ["size", n] => newWriterSize client op (natOr n)
  | ["bufsize", n] => newWriterBufferSize client op (natOr n)
  | ["buf", n] => newWriterBuffer client op (natOr n)
  | ["bufc", n] => newWriterBuffer client op (natOr n)   -- spare capacity behind the slice is not the writer's
  | ["get", n] => getWriter client op (natOr n)
  | _ => none

def writesStr (before after : Dst) : String :=
  ",".intercalate ((after.writes.drop before.writes.length).map Bytes.toHex)

/-- Run one writer op on the model; returns the result string and the new state (none = panic). -/
def wrOp (w : Wr) (e : Env) (tok : String) : Option (String × Wr × Env) :=
  match tok.splitOn ":" with
  | ["w", p] => (w.write e (hexOr p)).map fun (n, er, w', e') => (s!"{n},{werrStr er}", w', e')
  | ["wt", p] => (w.writeThrough e (hexOr p)).map fun (n, er, w', e') => (s!"{n},{werrStr er}", w', e')
  | ["ff"] => (w.flushFrag e).map fun (er, w', e') => (werrStr er, w', e')
  | ["fl"] => (w.flush e).map fun (er, w', e') => (werrStr er, w', e')
  | ["g", n] => (w.grow (natOr n)).map fun w' => (s!"{w'.size}", w', e)
  | ["nf"] => some ("ok", { w with noFlush := true }, e)
  | ["rf", k, hex, fin] =>
    (w.readFrom e (mkSrc2 hex k fin)).map fun (n, er, w', e', _) => (s!"{n},{werrStr er}", w', e')
  | ["rs", sd, op] => (w.reset (sd == "C") (natOr op)).map fun w' => (s!"{w'.size}", w', e)
  | ["ro", op] => some ("ok", w.resetOp (natOr op), e)
  | ["se", x] => some ("ok", { w with ext := parseExt x }, e)
  | ["av"] => some (s!"{w.size},{w.available},{w.buf.length}", w, e)
  | _ => some ("BADOP", w, e)

/-- "x1" / "x2" / "x3": an application send extension that ORs these RSV bits into EVERY frame it is shown. The
    writer model knows only the wsflate.MessageState extension; for an all-frames extension the model's frames
    (computed without it) get the bits OR-ed into the first byte of each frame header. Driver-level, not part
    of the proved model (DESIGN §6.C06). -/
def parseAll (x : String) : Nat :=
  if x.endsWith "x1" then 1 else if x.endsWith "x2" then 2 else if x.endsWith "x3" then 3 else 0

/-- lengths of the frames (header + payload) at the front of `bs`, as far as they are complete -/
def frameLens (fuel : Nat) (bs : Bytes) : List Nat :=
  match fuel with
  | 0 => []
  | fuel + 1 =>
    match bs with
    | _ :: b1 :: _ =>
      let l7 := b1 % 128
      let m := if b1 ≥ 128 then 4 else 0
      let (hl, pl) :=
        if l7 < 126 then (2 + m, l7)
        else if l7 == 126 then (4 + m, (bs.getD 2 0) * 256 + bs.getD 3 0)
        else (10 + m, ((bs.drop 2).take 8).foldl (fun a b => a * 256 + b) 0)
      if bs.length < hl + pl then [] else (hl + pl) :: frameLens fuel (bs.drop (hl + pl))
    | _ => []

def orBits (bits : Nat) (ws : List Bytes) : List Bytes :=
  if bits == 0 then ws else
  let flat := ws.flatten
  let lens := frameLens (flat.length + 1) flat
  -- offsets of frame starts
  let starts := (lens.foldl (fun (acc : List Nat × Nat) l => (acc.1 ++ [acc.2], acc.2 + l)) ([], 0)).1
  let flat' := starts.foldl (fun (f : Bytes) i => f.set i ((f.getD i 0) ||| (bits * 16))) flat
  -- cut again as the destination writes were
  (ws.foldl (fun (acc : List Bytes × Bytes) w => (acc.1 ++ [acc.2.take w.length], acc.2.drop w.length)) ([], flat')).1

def wrRunA (all : Nat) (w : Wr) (e : Env) : List String → List String → List String
  | [], acc => acc.reverse
  | t :: ts, acc =>
    let all' := match t.splitOn ":" with
      | ["se", x] => parseAll x
      | ["rs", _, _] => 0
      | _ => all
    match wrOp w e t with
    | none => (("PANIC@") :: acc).reverse
    | some (r, w', e') =>
      let ws := orBits all (e'.dst.writes.drop e.dst.writes.length)
      wrRunA all' w' e' ts ((r ++ "@" ++ ",".intercalate (ws.map Bytes.toHex)) :: acc)

def wrRun (w : Wr) (e : Env) (ts acc : List String) : List String := wrRunA 0 w e ts acc

/-! ### the C06 oracle: judges the observed destination writes, independently of the model -/

structure OFrame where
  h : Header
  payload : Bytes
  deriving Repr

/-- Parse a byte string into whole frames; returns frames and leftover bytes (non-empty leftover =
    a partial frame). -/
def parseFrames : Nat → Bytes → List OFrame → List OFrame × Bytes
  | 0, bs, acc => (acc.reverse, bs)
  | fuel + 1, bs, acc =>
    if bs.isEmpty then (acc.reverse, []) else
    match rfcDecode bs with
    | .ok h k =>
      let rest := bs.drop k
      if rest.length < h.len then (acc.reverse, bs)
      else parseFrames fuel (rest.drop h.len) (⟨h, rest.take h.len⟩ :: acc)
    | _ => (acc.reverse, bs)

structure OSt where
  client : Bool
  op : Nat
  ext : Option Bool
  masks : List Mask
  pending : Bytes := []      -- accepted bytes not yet seen on the wire
  inMsg : Bool := false      -- frames of an unfinished message have been sent
  noFlush : Bool := false
  failed : Bool := false
  all : Nat := 0             -- RSV bits an application extension puts on every frame
  size : Option Nat := none  -- last Size() the harness reported (constructor, av, g, rs)
  touched : Bool := false    -- Write / WriteThrough / ReadFrom called since the last completed Flush, Reset or ResetOp
  deriving Repr

/-- Check the frames emitted by one op against the writer contract; returns error or new state. -/
def oFrames (st : OSt) : List OFrame → Except String OSt
  | [] => .ok st
  | f :: fs =>
    let expOp := if st.inMsg then 0 else st.op
    if f.h.op != expOp then .error s!"opcode-{f.h.op}-expected-{expOp}"
    else if f.h.masked != st.client then .error "masked-iff-client"
    else
      let expRsv := (if !st.inMsg && st.ext == some true then 4 else 0) ||| st.all
      if f.h.rsv != expRsv then .error s!"rsv-{f.h.rsv}-expected-{expRsv}"
      else
        let (m, ms) := if st.client then (st.masks.headD f.h.mask, st.masks.drop 1) else (Mask.zero, st.masks)
        if st.client && !st.masks.isEmpty && f.h.mask != m then .error "mask-not-the-drawn-key"   -- (list exhausted: unknown)
        else
          let plain := if st.client then xorSpec f.payload m 0 else f.payload
          if plain != st.pending.take plain.length then .error "payload-not-the-accepted-bytes-in-order"
          else oFrames { st with masks := ms, pending := st.pending.drop plain.length, inMsg := !f.h.fin } fs

/-- Judge one op given its token, its reported result and its destination writes. -/
def oStep (st : OSt) (tok res : String) (writes : List Bytes) : Except String OSt :=
  let bytes := writes.flatten
  let (frames, left) := parseFrames (bytes.length + 1) bytes []
  if !left.isEmpty && !st.failed && !res.endsWith "dfail" then .error "partial-frame-at-call-boundary"
  else if st.failed && !bytes.isEmpty then .error "bytes-sent-after-destination-error"
  else
    let rf := res.splitOn ","
    let n := natOr (rf.headD "0")
    let failedNow := res.endsWith "dfail"
    let t := tok.splitOn ":"
    -- bytes newly accepted by this op
    let st1 : Except String OSt :=
      match t with
      | ["w", p] => .ok { st with pending := st.pending ++ (hexOr p).take n, touched := true }
      | ["wt", p] => .ok { st with pending := st.pending ++ (hexOr p).take n, touched := true }
      | ["rf", _, hex, _] => .ok { st with pending := st.pending ++ (hexOr hex).take n, touched := true }
      | ["rs", sd, op] => .ok { st with client := sd == "C", op := natOr op, ext := none, pending := [], inMsg := false, noFlush := false, size := some n, all := 0, touched := false }
      | ["av"] => .ok { st with size := some n }
      | ["g", _] => .ok { st with size := some n }
      | ["ro", op] => .ok { st with op := natOr op, pending := [], inMsg := false, touched := false }
      | ["se", x] => .ok { st with ext := parseExt x, all := parseAll x }
      | ["nf"] => .ok { st with noFlush := true }
      | _ => .ok st
    match st1 with
    | .error e => .error e
    | .ok st1 =>
      if st.failed && (t.head? == some "w" ∨ t.head? == some "wt" ∨ t.head? == some "ff" ∨ t.head? == some "fl") && !failedNow then
        .error "no-error-reported-after-destination-error"
      else
      -- Reset(dest, state, op) starts a new session (new destination): the sticky error goes with the old one.
      -- ResetOp does not: it is the same frame stream.
      if t.head? == some "rs" then .ok { st1 with failed := false }
      else
      -- (a failing op drew keys for frames the destination never took: the oracle no longer knows which key is next)
      if st.failed || failedNow then .ok { st1 with failed := true, masks := [] }
      else
      match oFrames st1 frames with
      | .error e => .error e
      | .ok st2 =>
        if t == ["fl"] && res == "nil" then
          -- "If no Write() or ReadFrom() was made, then Flush() does nothing."
          if !frames.isEmpty && !st1.touched && !st1.inMsg && st1.pending.isEmpty then .error "message-sent-by-Flush-though-nothing-was-written"
          else if st2.inMsg then .error "message-not-finished-by-Flush"
          else if !st2.pending.isEmpty then .error "accepted-bytes-lost-at-Flush"
          else if st1.noFlush && frames.length > 1 then .error "noflush-message-not-a-single-frame"
          else .ok { st2 with touched := false }
        else if st1.noFlush && t.head? == some "w" && !frames.isEmpty then .error "write-sent-bytes-with-flush-disabled"
        else .ok st2

def oRun (st : OSt) : List String → List String → Nat → String
  | [], _, _ => "ok"
  | _, [], _ => "ok"
  | t :: ts, it :: its, i =>
    match it.splitOn "@" with
    | [res, ws] =>
      -- Reset to the client side of a writer whose whole buffer is at most 6 bytes (server side: Size() <= 4): the
      -- client header does not fit and Reset panics "writer buffer is too small", like NewWriterBuffer would
      let tooSmall := (t.splitOn ":").take 2 == ["rs", "C"] && !st.client && (match st.size with | some z => z ≤ 4 | none => true)
      if res.startsWith "PANIC" then (if tooSmall then "ok" else s!"bad:op{i}:panic") else
      let writes := if ws == "" then [] else (ws.splitOn ",").map hexOr
      match oStep st t res writes with
      | .error e => s!"bad:op{i}:{t.take 12}:{e}"
      | .ok st' => oRun st' ts its (i + 1)
    | _ => "bad:format"

def c06wr (a : List String) (obs : String) : String × String :=
  match a with
  | sd :: op :: ctor :: ext :: fail :: _seed :: toks =>
    let client := sd == "C"
    let masks := parseMasks obs
    let mstr := (obs.splitOn " masks=").getD 1 ""
    let e : Env := { dst := { failAt := if fail == "-" then none else some (natOr fail) }, masks }
    let items := ((obs.splitOn " masks=").headD "").splitOn ";"
    match mkWr client (natOr op) ctor with
    | none => (s!"PANIC@ masks={mstr}",
               if (items.headD "").startsWith "PANIC" then "ok" else "bad:ctor")
    | some w0 =>
      let w0 := { w0 with ext := parseExt ext }
      let out := wrRun w0 e toks [s!"ok:{w0.size}@"]
      let model := ";".intercalate out ++ " masks=" ++ mstr
      let st : OSt := { client, op := natOr op, ext := parseExt ext, masks, size := some (natOr ((((items.headD "").splitOn "@").headD "").drop 3).toString) }
      -- NewWriterSize(n): "output frames payload length could be up to n" — the payload buffer is n bytes
      let sizeAsked : Option Nat := match ctor.splitOn ":" with | ["size", n] => (if natOr n > 0 then some (natOr n) else none) | _ => none
      let verdict := if (items.headD "").startsWith "PANIC" then "bad:constructor-panicked"
        else if sizeAsked.isSome && st.size != sizeAsked then "bad:NewWriterSize-buffer-is-not-the-size-asked-for"
        else oRun st toks (items.drop 1) 0
      (model, verdict)
  | _ => ("BADOP", "skip")

def c06wm (a : List String) (obs : String) : String × String :=
  match a with
  | [sd, op, p, fail, _] =>
    let client := sd == "C"
    let masks := parseMasks obs
    let mstr := (obs.splitOn " masks=").getD 1 ""
    let e : Env := { dst := { failAt := if fail == "-" then none else some (natOr fail) }, masks }
    let pl := hexOr p
    match writeMessage e client (natOr op) true pl with
    | none => ("PANIC", "skip")
    | some (ok, e') =>
      let model := s!"{if ok then "nil" else "dfail"}@{writesStr e.dst e'.dst} intact=1 masks={mstr}"
      let f := obs.splitOn " "
      let ws := ((f.headD "").splitOn "@").getD 1 ""
      let bytes := ((if ws == "" then [] else (ws.splitOn ",").map hexOr)).flatten
      let m := masks.headD Mask.zero
      let eh : Header := { fin := true, rsv := 0, op := natOr op, masked := client, mask := if client then m else Mask.zero, len := pl.length }
      let exp := rfcEncode eh ++ (if client then xorSpec pl m 0 else pl)
      let verdict := if fail != "-" then "skip"
        else if f.getD 1 "" != "intact=1" then "bad:caller-bytes-modified"
        else if bytes != exp then "bad:not-one-final-frame-with-the-payload" else "ok"
      (model, verdict)
  | _ => ("BADOP", "skip")

end Ws.Driver
