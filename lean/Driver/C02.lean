import Driver.Util
import WsVerif.Model.Cipher
import WsVerif.Spec.Cipher
namespace Ws.Driver
open Ws Ws.Spec

def parseMask (s : String) : Mask :=
  let kb := hexOr s
  ⟨kb.getD 0 0, kb.getD 1 0, kb.getD 2 0, kb.getD 3 0⟩

def optHex : Option Bytes → String
  | some b => Bytes.toHex b
  | none => "PANIC"

def c02cipher (a : List String) (obs : String) : String × String :=
  match a with
  | [p, m, off, _] =>
    let pb := hexOr p; let mk := parseMask m; let o := natOr off
    (optHex (cipher pb mk o), if obs == Bytes.toHex (xorSpec pb mk o) then "ok" else "bad:not-rfc-xor")
  | _ => ("BADOP", "skip")

def mkSrc2 (hex k fin : String) : Src :=
  -- a leading "b": the harness gives the source a bufio-style Discard method; same byte stream
  let fin := if fin.startsWith "b" then (fin.drop 1).toString else fin
  { chunks := chunksOf (natOr k) (hexOr hex), fin := if fin.startsWith "F" then .fail else .eof,
    dataWithFin := fin.endsWith "d" }

def finStr : Fin → String
  | .eof => "eof" | .fail => "fail"

def parseInts (s : String) : List Int :=
  if s == "-" then [] else (s.splitOn ",").map fun x => x.toInt?.getD 0

partial def crdLoop (c : CipherRd) (s : Src) (sizes : Array Nat) (i : Nat) (acc : Bytes) : String :=
  if i ≥ 100000 then Bytes.toHex acc ++ " LOOP" else
  let k := sizes[i % sizes.size]!
  match c.read s k with
  | (none, _, _, _) => "PANIC"
  | (some out, some e, _, _) => Bytes.toHex (acc ++ out) ++ " " ++ finStr e
  | (some out, none, c', s') => crdLoop c' s' sizes (i + 1) (acc ++ out)

def c02crd (a : List String) (obs : String) : String × String :=
  match a with
  | [hex, m, k, sizes, fin] =>
    let s := mkSrc2 hex k fin
    let mk := parseMask m
    let sz := ((parseInts sizes).map Int.toNat).toArray
    let model := crdLoop ⟨mk, 0⟩ s sz 0 []
    let exp := Bytes.toHex (xorSpec (hexOr hex) mk 0) ++ " " ++ (if fin.startsWith "F" then "fail" else "eof")
    (model, if obs == exp then "ok" else s!"bad:expected:{exp.take 80}")
  | _ => ("BADOP", "skip")

partial def crcCopy (c : CipherRd) (s : Src) (i : Nat) (acc : Bytes) : String :=
  if i ≥ 100000 then Bytes.toHex acc ++ " LOOP" else
  match c.read s 32768 with      -- io.Copy's buffer
  | (none, _, _, _) => "PANIC"
  | (some out, some e, _, _) => Bytes.toHex (acc ++ out) ++ " copy:" ++ (if e == .eof then "nil" else finStr e)
  | (some out, none, c', s') => crcCopy c' s' (i + 1) (acc ++ out)

def crcHeads (c : CipherRd) (s : Src) : List Nat → Bytes → String
  | [], acc => crcCopy c s 0 acc
  | k :: ks, acc =>
    match c.read s k with
    | (none, _, _, _) => "PANIC"
    | (some out, some e, _, _) => Bytes.toHex (acc ++ out) ++ " " ++ finStr e
    | (some out, none, c', s') => crcHeads c' s' ks (acc ++ out)

def c02crc (a : List String) (obs : String) : String × String :=
  match a with
  | [hex, m, k, heads, fin] =>
    let s := mkSrc2 hex k fin
    let mk := parseMask m
    let model := crcHeads ⟨mk, 0⟩ s ((parseInts heads).map Int.toNat) []
    let data := Bytes.toHex (xorSpec (hexOr hex) mk 0)
    let ends := if fin.startsWith "F" then ["fail", "copy:fail"] else ["eof", "copy:nil"]
    let verdict := match obs.splitOn " " with
      | [d, e] => if d != data then "bad:bytes-differ-from-§5.3-XOR" else if ends.contains e then "ok" else s!"bad:end:{e}"
      | _ => "bad:format"
    (model, verdict)
  | _ => ("BADOP", "skip")

def cwrLoop (c : CipherWr) : List (Bytes × Int) → Bytes → List String → Bytes × List String
  | [], acc, res => (acc, res.reverse)
  | (p, a) :: rest, acc, res =>
    let n := if a < 0 ∨ a.toNat ≥ p.length then p.length else a.toNat
    match c.write p n with
    | (none, _, _) => (acc, ("PANIC" :: res).reverse)
    | (some sent, c', _) =>
      if n < p.length then (acc ++ sent, (s!"{n}:dfail" :: res).reverse)
      else cwrLoop c' rest (acc ++ sent) (s!"{n}:nil" :: res)

def c02cwr (a : List String) (obs : String) : String × String :=
  match a with
  | [m, accs, ps] =>
    let mk := parseMask m
    let pl := (ps.splitOn ",").map hexOr
    let al := parseInts accs
    let ws := pl.zipIdx.map fun (p, i) => (p, al.getD i (-1))
    let (dst, res) := cwrLoop ⟨mk, 0⟩ ws [] []
    let model := s!"{Bytes.toHex dst} {",".intercalate res} intact=1"
    -- oracle: destination = prefix of the §5.3 XOR of the concatenated writes, cut at the short accept
    let rec expect (ws : List (Bytes × Int)) (given : Bytes) (cut : Nat) : Bytes × Nat :=
      match ws with
      | [] => (given, cut)
      | (p, a) :: rest =>
        if a < 0 ∨ a.toNat ≥ p.length then expect rest (given ++ p) (cut + p.length)
        else (given ++ p, cut + a.toNat)
    let (given, cut) := expect ws [] 0
    let exp := Bytes.toHex ((xorSpec given mk 0).take cut)
    let f := obs.splitOn " "
    let verdict := if f.head? == some exp ∧ f.getLast? == some "intact=1" then "ok"
                   else if f.getLast? != some "intact=1" then "bad:caller-bytes-modified" else "bad:dest-bytes-not-rfc-xor"
    (model, verdict)
  | _ => ("BADOP", "skip")

/-- short write, then the caller retries the tail through the same writer -/
def cwrrLoop (c : CipherWr) : List (Bytes × Int) → Bytes → List String → Bytes × List String
  | [], acc, res => (acc, res.reverse)
  | (p, a) :: rest, acc, res =>
    let n := if a < 0 ∨ a.toNat ≥ p.length then p.length else a.toNat
    match c.write p n with
    | (none, _, _) => (acc, ("PANIC" :: res).reverse)
    | (some sent, c', _) =>
      if n < p.length then
        match c'.write (p.drop n) (p.length - n) with
        | (none, _, _) => (acc, ("PANIC" :: res).reverse)
        | (some sent2, c2, _) => cwrrLoop c2 rest (acc ++ sent ++ sent2) (s!"retry{p.length - n}:nil" :: s!"{n}:dfail" :: res)
      else cwrrLoop c' rest (acc ++ sent) (s!"{n}:nil" :: res)

def c02cwrr (a : List String) (obs : String) : String × String :=
  match a with
  | [m, accs, ps] =>
    let mk := parseMask m
    let pl := (ps.splitOn ",").map hexOr
    let al := parseInts accs
    let ws := pl.zipIdx.map fun (p, i) => (p, al.getD i (-1))
    let (dst, res) := cwrrLoop ⟨mk, 0⟩ ws [] []
    let model := s!"{Bytes.toHex dst} {",".intercalate res} intact=1"
    let exp := Bytes.toHex (xorSpec pl.flatten mk 0)
    let f := obs.splitOn " "
    let verdict := if f.getLast? != some "intact=1" then "bad:caller-bytes-modified"
                   else if f.head? == some exp then "ok" else "bad:dest-bytes-not-rfc-xor-after-retried-short-write"
    (model, verdict)
  | _ => ("BADOP", "skip")

def c02mf (a : List String) (obs : String) : String × String :=
  match a with
  | [v, f, r, o, m, k, l, nm, p] =>
    let pl := hexOr p
    let h := parseHeader [f, r, o, m, k, l]      -- Length as the caller left it (not necessarily the payload's)
    let fr : Frame := ⟨h, pl⟩
    -- a random mask chosen by the implementation is read off its result and used as input
    let obsMask := parseMask (((obs.splitOn " ").headD "").splitOn "," |>.getD 4 "00000000")
    let isRand := v == "mask" ∨ v == "maskInPlace"
    let nmask := if isRand then obsMask else parseMask nm
    let res := match v with
      | "maskWith" | "mask" => maskFrameWith fr nmask
      | "maskInPlaceWith" | "maskInPlace" => maskFrameInPlaceWith fr nmask
      | "unmask" => unmaskFrame fr
      | "unmaskInPlace" => unmaskFrameInPlace fr
      | _ => none
    let model := match res with
      | some (g, caller) => s!"{hdrStr g.header} {Bytes.toHex g.payload} {Bytes.toHex caller}"
      | none => "PANIC"
    let isUnmask := v.startsWith "unmask"
    let inPlace := v == "maskInPlaceWith" ∨ v == "maskInPlace" ∨ v == "unmaskInPlace"
    let key := if isUnmask then h.mask else nmask
    let x := xorSpec pl key 0
    let eh := if isUnmask then { h with masked := false, mask := Mask.zero } else { h with masked := true, mask := nmask }
    let exp := s!"{hdrStr eh} {Bytes.toHex x} {Bytes.toHex (if inPlace then x else pl)}"
    (model, if obs == exp then "ok" else s!"bad:expected:{exp.take 120}")
  | _ => ("BADOP", "skip")

end Ws.Driver
