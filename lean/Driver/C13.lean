import Driver.C04Oracle
namespace Ws.Driver
open Ws Ws.Spec

def perr (e : Option ProtoErr) : String := match e with | none => "nil" | some e => "proto:" ++ e.goName

def c13msb (a : List String) (obs : String) : String × String :=
  match a with
  | [which, c, fin, rsv, op] =>
    let comp := c == "1"
    let h : Header := { fin := fin == "1", rsv := natOr rsv, op := natOr op, masked := false, mask := Mask.zero, len := 5 }
    let r := h.rsv; let o := h.op
    let firstData := o < 8 && o != 0
    if which == "set" then
      let (g, e) := setBits comp h
      let (g2, e2) := setBits true h
      let model := s!"{hdrStr g} {perr e} {b2s comp} | {hdrStr g2} {perr e2}"
      -- oracle: RSV1 already set -> error; else RSV1 set iff compressed and first data frame; others untouched
      let exp (cm : Bool) : String :=
        if r / 4 % 2 == 1 then s!"{hdrStr h} proto:ErrUnexpectedCompressionBit"
        else s!"{hdrStr { h with rsv := if cm && firstData then r + 4 else r }} nil"
      let verdict := if obs == s!"{exp comp} {b2s comp} | {exp true}" then "ok" else "bad:SetBits-not-first-data-frame-only"
      (model, verdict)
    else
      let (g, e, c') := unsetBits comp h
      let (g2, e2, c2) := unsetBits false h
      let model := s!"{hdrStr g} {perr e} {b2s c'} | {hdrStr g2} {b2s c2} {perr e2} {b2s c2} {perr e2}"
      let exp (cm : Bool) : String × Bool :=
        if firstData then (s!"{hdrStr { h with rsv := r % 4 }} nil", r / 4 % 2 == 1)
        else if r / 4 % 2 == 1 then (s!"{hdrStr h} proto:ErrUnexpectedCompressionBit", cm)
        else (s!"{hdrStr h} nil", cm)
      let (x1, s1) := exp comp
      let (x2, s2) := exp false
      let x2h := (x2.splitOn " ").headD ""; let x2e := (x2.splitOn " ").getD 1 ""
      let verdict := if obs == s!"{x1} {b2s s1} | {x2h} {b2s s2} {x2e} {b2s s2} {x2e}" then "ok" else "bad:UnsetBits-state-or-header"
      (model, verdict)
  | _ => ("BADOP", "skip")

def c13stack (a : List String) (obs : String) : String × String :=
  -- oracle only: the message comes back identical, flagged compressed, RSV1 on the first frame only,
  -- cleared in the header handed to the application
  let f := obs.splitOn " "
  let get (k : String) : String := ((f.filter (·.startsWith (k ++ "="))).headD "").drop (k.length + 1) |>.toString
  let rsv1 := get "rsv1"
  let okRsv := rsv1.startsWith "1" && (rsv1.drop 1).toString.all (· == '0')
  let verdict :=
    if !obs.startsWith "ok " then s!"bad:stack-{(f.headD "")}"
    else if !okRsv then "bad:RSV1-not-on-first-frame-only"
    else if get "hdrRsv" != "0" then "bad:RSV1-not-cleared-for-application"
    else if get "compressed" != "1" || get "after" != "1" then "bad:compression-state"
    else if get "equal" != "1" then "bad:payload-differs"
    else "ok"
  let _ := a
  (obs, verdict)

end Ws.Driver
