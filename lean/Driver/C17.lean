import Driver.C20
namespace Ws.Driver
open Ws

/-- C17: the model of a returned value is a value - it cannot change; the prediction is therefore
    "after = snap" (and for the dialer "offerafter = offer", for the write side "intact=1" and the
    destination carrying the original bytes). -/
def c17ali (a : List String) (obs : String) : String × String :=
  if obs.startsWith "SKIP" then (obs, "skip") else
  match a with
  | "wr" :: _kind :: _sd :: hex :: _ =>
    let carried := getF obs "carried"
    let model := s!"intact=1 carried={if carried == "-" then "-" else Bytes.toHex (hexOrEmpty hex)}"
    let verdict :=
      if getF obs "intact" != "1" then "bad:caller-slice-modified"
      else if carried != "-" && hexOrEmpty carried != hexOrEmpty hex then "bad:destination-does-not-carry-the-bytes-as-written"
      else "ok"
    (model, verdict)
  | _ =>
    let f := obs.splitOn " "
    let snap := getF obs "snap"
    let offer := getF obs "offer"
    let model := " ".intercalate (f.map fun x =>
      if x.startsWith "after=" then s!"after={snap}" else if x.startsWith "offerafter=" then s!"offerafter={offer}" else x)
    let verdict :=
      if obs.startsWith "PANIC" then "bad:panic"
      else if getF obs "after" != snap then "bad:returned-value-changed-after-pooled-buffers-were-recycled"
      else if getF obs "offerafter" != offer then "bad:dialer-configuration-changed-by-a-handshake"
      else "ok"
    (model, verdict)

end Ws.Driver
