import Driver.C10
namespace Ws.Driver
open Ws Ws.Spec

def getF (obs : String) (k : String) : String :=
  let f := obs.splitOn " "
  ((f.filter (·.startsWith (k ++ "="))).headD "").drop (k.length + 1) |>.toString

def srcOf (bs : Bytes) (k : Nat) (fin : String) : Src :=
  { chunks := chunksOf k bs, fin := if fin.startsWith "F" then .fail else .eof, dataWithFin := fin.endsWith "d" }

def upOutcomeStr (cfg : UpCfg) (s : Src) : String :=
  let (hs, e, wr, _) := upgrade cfg s
  s!"{upErrStr e} proto={Bytes.toHex hs.protocol} exts={optsStr hs.extensions} written={Bytes.toHex wr}"

/-- dialer -> upgrader -> dialer. -/
def c11pair (a : List String) (obs : String) : String × String :=
  match a with
  | [dc, uc, _url, kreq, kresp] =>
    if obs.startsWith "SKIP" then (obs, "skip") else
    let dcfg := parseDialCfg dc
    let ucfg := parseUpCfg uc
    let nonce := hexOr (getF obs "nonce")
    let req := writeUpgradeRequest dcfg (hexOr (getF obs "uri")) (hexOr (getF obs "uhost")) nonce
    let (uhs, uerr, resp, _) := upgrade ucfg (srcOf req (natOr kreq) "E")
    let (dhs, derr, _) := dialerUpgrade dcfg nonce (srcOf resp (natOr kresp) "E")
    let model := s!"d={dialErrStr derr} dproto={Bytes.toHex dhs.protocol} dexts={optsStr dhs.extensions} u={upErrStr uerr} uproto={Bytes.toHex uhs.protocol} uexts={optsStr uhs.extensions} req={Bytes.toHex req} resp={Bytes.toHex resp} nonce={getF obs "nonce"} uri={getF obs "uri"} uhost={getF obs "uhost"}"
    let d := getF obs "d"; let u := getF obs "u"
    let verdict :=
      if (d == "nil") != (u == "nil") then s!"bad:peers-disagree-on-outcome-d={d}-u={u}"
      else if d == "nil" && getF obs "dproto" != getF obs "uproto" then "bad:peers-disagree-on-subprotocol"
      else if d == "nil" && getF obs "dexts" != getF obs "uexts" then "bad:peers-disagree-on-extensions"
      else "ok"
    (model, verdict)
  | _ => ("BADOP", "skip")

def gridRb : List Nat := [0, 1, 16, 17, 64, 300]
def gridK (n : Nat) : List Nat := [0, 1, 2, 3, 5, 7, 16, 17, 33, 64, 100] ++ (if n ≥ 1 then [n - 1] else [])

def distinctOf (xs : List String) : Nat := (xs.foldl (fun acc x => if acc.contains x then acc else x :: acc) []).length

def c11chup (a : List String) (obs : String) : String × String :=
  match a with
  | [uc, req, fin] =>
    let cfg := parseUpCfg uc
    let rq := hexOr req
    let outs := gridRb.flatMap fun rb => (gridK rq.length).map fun k =>
      upOutcomeStr { cfg with readBuf := rb } (srcOf rq k fin)
    let n := distinctOf outs
    let model := s!"distinct={n} diff={if n == 1 then "-" else "x"} {outs.headD ""}"
    (model, if getF obs "distinct" == "1" then "ok" else "bad:outcome-depends-on-chunking-or-buffer-size")
  | _ => ("BADOP", "skip")

def fixedNonce : Bytes := strBytes "dGhlIHNhbXBsZSBub25jZQ=="

def dlOutcomeStr (cfg : DialCfg) (nonce : Bytes) (s : Src) : String :=
  let (hs, e, b) := dialerUpgrade cfg nonce s
  let rest := if e.isNone then Bytes.toHex (b.buf ++ b.src.bytes) else "-"
  s!"{dialErrStr e} proto={Bytes.toHex hs.protocol} exts={optsStr hs.extensions} rest={rest}"

def c11chdl (a : List String) (obs : String) : String × String :=
  match a with
  | [dc, _url, respS, fin] =>
    if obs.startsWith "SKIP" then (obs, "skip") else
    let cfg := parseDialCfg dc
    let resp := replaceAll (hexOr respS) (strBytes "@ACCEPT@") (acceptOf fixedNonce)
    let outs := gridRb.flatMap fun rb => (gridK resp.length).map fun k =>
      dlOutcomeStr { cfg with readBuf := rb } fixedNonce (srcOf resp k fin)
    let n := distinctOf outs
    let model := s!"distinct={n} diff={if n == 1 then "-" else "x"} {outs.headD ""}"
    (model, if getF obs "distinct" == "1" then "ok" else "bad:outcome-depends-on-chunking-or-buffer-size")
  | _ => ("BADOP", "skip")

/-- head of an HTTP message: through the first blank line (LF or CRLF line ends) -/
def headOf (bs : Bytes) : Option Bytes :=
  let rec go (fuel : Nat) (rest : Bytes) (pos : Nat) : Option Nat :=
    match fuel with
    | 0 => none
    | fuel + 1 =>
      match rest.idxOf? 10 with
      | none => none
      | some i =>
        let line := rest.take i
        let line := if line.getLast? == some 13 then line.dropLast else line
        if line.isEmpty && pos > 0 then some (pos + i + 1) else go fuel (rest.drop (i + 1)) (pos + i + 1)
  (go (bs.length + 1) bs 0).map bs.take

def c11dbgup (a : List String) (obs : String) : String × String :=
  match a with
  | [uc, req, k] =>
    let cfg := parseUpCfg uc
    let rq := hexOr req
    let plain := upOutcomeStr cfg (srcOf rq (natOr k) "E")
    let model := s!"same=1 calls=1/1 repreq={getF obs "repreq"} represp={getF obs "represp"} left={getF obs "left"} pleft={getF obs "pleft"} {plain}"
    let verdict :=
      if obs.startsWith "PANIC" then "bad:debug-upgrader-panics"
      else if getF obs "same" != "1" then "bad:debug-upgrader-changes-the-outcome"
      else if getF obs "calls" != "1/1" then "bad:debug-upgrader-callback-count"
      else if getF obs "represp" != getF obs "written" then "bad:debug-upgrader-response-report"
      else if (obs.splitOn " ").any (· == "nil") && getF obs "left" != getF obs "pleft" then "bad:debug-upgrader-loses-or-keeps-other-bytes"
      else match headOf rq with
        | some h => if rq == h && hexOr (getF obs "repreq") != h then "bad:debug-upgrader-request-report" else "ok"
        | none => "ok"
    (model, verdict)
  | _ => ("BADOP", "skip")

/-- a rejection seen through Dialer.OnStatusError under every chunking x buffer size: judged, not predicted -/
def c11chdls (_a : List String) (obs : String) : String × String :=
  if obs.startsWith "SKIP" then (obs, "skip") else
  (obs, if getF obs "distinct" == "1" then "ok" else "bad:what-OnStatusError-sees-depends-on-chunking-or-buffer-size")

/-- DebugUpgrader over a connection that breaks while the response goes out: judged, not predicted (the model has
    no failing connection) — what OnResponse reports is what the connection accepted. -/
def c11dbgupw (_a : List String) (obs : String) : String × String :=
  (obs,
    if obs.startsWith "PANIC" then "bad:debug-upgrader-panics"
    else if getF obs "calls" != "1" then "bad:debug-upgrader-callback-count"
    else if getF obs "represp" != getF obs "written" then "bad:debug-upgrader-reports-response-bytes-that-were-not-sent"
    else "ok")

def c11dbgdl (a : List String) (obs : String) : String × String :=
  match a with
  | [dc, _url, respS, k, mode] =>
    if obs.startsWith "PANIC" then ("same=1", "bad:debug-dialer-panics") else
    let cfg := parseDialCfg dc
    -- rand.Seed(77) makes both runs draw the same nonce; it is read back from the request sent
    let sent := hexOr (getF obs "sentreq")
    let nonce := match findSub sent (strBytes "Sec-WebSocket-Key: ") with
      | some i => (sent.drop (i + 19)).take 24
      | none => fixedNonce
    let resp := replaceAll (hexOr respS) (strBytes "@ACCEPT@") (acceptOf nonce)
    let plain := if mode == "dialfail" then "io:fail proto=- exts=- rest=-" else dlOutcomeStr cfg nonce (srcOf resp (natOr k) "E")
    let model := s!"same=1 calls=1/1 repreq={getF obs "repreq"} sentreq={getF obs "sentreq"} represp={getF obs "represp"} others=1 {plain}"
    let verdict :=
      if getF obs "same" != "1" || getF obs "others" != "1" then "bad:debug-dialer-changes-outcome-or-post-handshake-bytes"
      else if getF obs "calls" != "1/1" then "bad:debug-dialer-callback-count"
      else if getF obs "repreq" != getF obs "sentreq" then "bad:debug-dialer-request-report"
      else if mode == "dialfail" then (if getF obs "represp" == "-" then "ok" else "bad:debug-dialer-response-report")
      else match headOf resp with
        | some h =>
          let rep := hexOr (getF obs "represp")
          if rep.take h.length != h then "bad:debug-dialer-response-report"
          else if (obs.splitOn " ").any (· == "nil") && rep != h then "bad:debug-dialer-response-report"
          else "ok"
        | none => "ok"
    (model, verdict)
  | _ => ("BADOP", "skip")

end Ws.Driver
