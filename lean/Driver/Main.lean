/-
  Model driver: reads "<op line> => <observed>" lines, answers "<model output> | <oracle verdict>".
  Imports models and specs only (no proof modules, no Mathlib) so it links as a native executable.
-/
import Driver.C01
import Driver.C02
import Driver.C03
import Driver.C07
import Driver.C06
import Driver.C04
import Driver.C04Oracle
import Driver.C08
import Driver.C13
import Driver.C14
import Driver.C09
import Driver.C10
import Driver.C11
import Driver.C12
import Driver.C18
import Driver.C15
import Driver.C20
import Driver.C17
import Driver.C19
open Ws.Driver

def dispatch (op : String) (args : List String) (obs : String) : String × String :=
  match op with
  | "wh" => c01wh args obs
  | "rh" => c01rh args obs
  | "rhs" => c01rhs args obs
  | "wf" => c01wf args obs
  | "rf" => c01rf args obs
  | "cipher" => c02cipher args obs
  | "crd" => c02crd args obs
  | "crc" => c02crc args obs
  | "cwr" => c02cwr args obs
  | "cwrs" => c02cwr args obs   -- same bytes through io.WriteString / io.Copy: same model
  | "cwrr" => c02cwrr args obs
  | "mf" => c02mf args obs
  | "chk" => c03chk args obs
  | "cls" => c03cls args obs
  | "body" => c03body args obs
  | "parse" => c03parse args obs
  | "pred" => c03pred args obs
  | "spred" => c03spred args obs
  | "u8" => c07u8 args obs
  | "u8r" => c07u8r args obs
  | "rdoc" => c07rdoc args obs
  | "wr" => c06wr args obs
  | "wrc" => c06wr args obs   -- destination churning the byte pool: same model
  | "wm" => c06wm args obs
  | "wmc" => c06wm args obs
  | "up" => c09up args obs
  | "hup" => c09hup args obs
  | "hupw" => c09hupw args obs
  | "upnr" => c09upnr args obs
  | "dl" => c10dl args obs
  | "dial" => c10dial args obs
  | "dialtls" => c10dialtls args obs
  | "pair" => c11pair args obs
  | "chup" => c11chup args obs
  | "chdl" => c11chdl args obs
  | "dbgup" => c11dbgup args obs
  | "dbgupw" => c11dbgupw args obs
  | "chdls" => c11chdls args obs
  | "dbgdl" => c11dbgdl args obs
  | "fw" => c12cw args obs
  | "sr" => c12sr args obs
  | "srz" => c12srz args obs
  | "fl" => c12fl args obs
  | "ind" => c12ind args obs
  | "indr" => c12indr args obs
  | "flr" => c12flr args obs
  | "df" => c12df args obs
  | "cf" => c12cf args obs
  | "badc" => c12badc args obs
  | "rst" => c18rst args obs
  | "fz" => c15fz args obs
  | "iso" => c15iso args obs
  | "dialc" => c20dialc args obs
  | "ali" => c17ali args obs
  | "conc" => c19conc args obs
  | "neg" => c14neg args obs
  | "popt" => c14popt args obs
  | "msb" => c13msb args obs
  | "stack" => c13stack args obs
  | "ctl" => c08ctl args obs
  | "cw" => c08cw args obs
  | "rm" => (c04rm args obs, rmOracle args obs)
  | "rdd" => (c04rdd args obs, rddOracle args obs)
  | "rdr" => (c04rdr args obs, rdrOracle args obs)
  | _ => ("UNKNOWN-OP", "skip")

def handleLine (line : String) : String :=
  match line.splitOn " => " with
  | [l, obs] =>
    match l.splitOn " " with
    | op :: args =>
      if obs == "HANG" then "RETURNS | bad:operation-never-returned"
      else if obs == "HANG-SKIPPED" then "HANG-SKIPPED | skip"
      else let (m, v) := dispatch op args obs; s!"{m} | {v}"
    | [] => "BADLINE | skip"
  | _ => "BADLINE | skip"

partial def loop (h : IO.FS.Stream) (out : IO.FS.Stream) : IO Unit := do
  let line ← h.getLine
  if line.isEmpty then return ()
  let line := if line.endsWith "\n" then (line.dropEnd 1).toString else line
  out.putStrLn (handleLine line)
  loop h out

def main : IO Unit := do
  let out ← IO.getStdout
  loop (← IO.getStdin) out
