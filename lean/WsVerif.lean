-- Root of the `WsVerif` library.
import WsVerif.Base
