#!/usr/bin/env python3
"""Developer aid: refresh the numbers of DESIGN.md §0.1 (theorem counts, quick-tier cases, module/line counts)
from evidence/*.json and the Lean tree.  usage: lib/mktable.py   (rewrites DESIGN.md in place)"""
import json, os, re, glob, subprocess
ROOT = os.path.dirname(os.path.dirname(os.path.abspath(__file__)))
d = open(os.path.join(ROOT, "DESIGN.md")).read()
tot = 0
for p in sorted(glob.glob(os.path.join(ROOT, "evidence", "C*.json"))):
    e = json.load(open(p))
    pid = e["property_id"]
    n = e["coverage"].get("obligations", 0)
    tot += n
    cases = e["coverage"].get("evaluations")
    m = re.search(r"^\| %s \| (\d+) \|(.*)\| ([^|]*) \|$" % pid, d, re.M)
    if not m:
        continue
    last = m.group(3)
    if cases and re.fullmatch(r"[\d\s ]+", last.strip()):
        last = f"{cases:,}".replace(",", " ")
    d = d[:m.start()] + f"| {pid} | {n} |{m.group(2)}| {last} |" + d[m.end():]
lean = glob.glob(os.path.join(ROOT, "lean", "WsVerif", "**", "*.lean"), recursive=True) + glob.glob(os.path.join(ROOT, "lean", "Driver", "*.lean"))
lean = [f for f in lean if "/Gen/" not in f]
lines = sum(len(open(f).read().splitlines()) for f in lean)
d = re.sub(r"\* `lean/` — \d+ modules, ~[\d.]+ k lines", f"* `lean/` — {len(lean)} modules, ~{lines/1000:.1f} k lines", d)
d = re.sub(r"\(property theorems, \d+ in total\s+with the bridges\)", f"(property theorems, {tot} in total\n  with the bridges)", d)
open(os.path.join(ROOT, "DESIGN.md"), "w").write(d)
print("theorems", tot, "modules", len(lean), "lines", lines)
