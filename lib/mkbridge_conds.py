#!/usr/bin/env python3
"""Developer aid (NOT run by the checks): print a Lean `theorem <name>` that pins the current
source-order list of conditions of one Go function, for pasting into a Bridge file after review.
usage: lib/mkbridge_conds.py <pkg> <FuncKey> <theoremName>"""
import re, sys
pkg, fn, name = sys.argv[1:4]
facts = open('/verif/lean/WsVerif/Gen/Facts.lean').read()
m = re.search(r'def facts_%s_conds : List String := \[(.*?)\]\n\n' % pkg, facts, re.S)
c = [l.strip() for l in m.group(1).split(',\n') if l.strip().startswith('"' + fn + ':')]
print(f'theorem {name} :\n    Gen.facts_{pkg}_conds.filter (·.startsWith "{fn}:") =\n      [' + ',\n       '.join(c) + '] := by decide +kernel\n')
