#!/bin/sh
# usage: lib/seedtest.sh <patch.diff> <Cxx> [tier]   — apply a seeded change to /repo, run the check, undo.
# The evidence file of the clean tree is preserved.
set -u
P="$1"; ID="$2"; TIER="${3:-quick}"
cd /verif
cp evidence/$ID.json /tmp/evidence-$ID.json 2>/dev/null
git -C /repo apply "$P" || { echo "APPLY-FAILED $P"; exit 3; }
./check "$ID" "$TIER" > /tmp/seedtest.out 2>&1; rc=$?
git -C /repo checkout -- .
cp /tmp/evidence-$ID.json evidence/$ID.json 2>/dev/null
grep -E "^(VIOLATION|KNOWN-FINDING|check )" /tmp/seedtest.out | cut -c1-300
echo "exit=$rc"
