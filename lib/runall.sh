#!/bin/sh
# run every claimed check on the current tree (default tier quick); prints one line per check
cd /verif
TIER="${1:-quick}"
for id in $(python3 -c "import sys; sys.path.insert(0,'lib'); from props import PROPS; print(' '.join(sorted(PROPS)))"); do
  ./check $id $TIER | tail -3
done
