#!/usr/bin/env python3
"""record_sweep.py <results.json>... — write the outcome of seedsweep runs into seeded/<id>/meta.json
(detected_by) and print the markdown table for DESIGN.md §12. Later files override earlier ones."""
import sys, json, os, re
ROOT = os.path.dirname(os.path.dirname(os.path.abspath(__file__)))
res = {}
for f in sys.argv[1:]:
    for x in json.load(open(f)):
        for p, c in x["checks"].items():
            res[(x["id"], p)] = c
rows = []
for sid in sorted(os.listdir(os.path.join(ROOT, "seeded"))):
    mp = os.path.join(ROOT, "seeded", sid, "meta.json")
    m = json.load(open(mp))
    det = []
    for (i, p), c in sorted(res.items()):
        if i != sid:
            continue
        how = {"DETECTED": "failing input", "nofail": "broken obligation / correspondence (no-failing-input-found)",
               "MISSED": "not detected"}.get(c["verdict"], c["verdict"])
        what = ""
        if c.get("replay_head"):
            try:
                rh = c["replay_head"]
                mm = re.search(r'"model_and_verdict": "[^"]*\| ([^"]*)"', rh)
                if mm:
                    what = mm.group(1)
                fam = re.search(r'"op": "(\w+) ', rh)
                if fam:
                    what = fam.group(1) + ": " + what
            except Exception:
                pass
        det.append({"check": p, "tier": "quick", "outcome": how, "first_report": what[:160]})
    if det:          # ids absent from these result files keep what an earlier sweep recorded
        m["detected_by"] = det
        json.dump(m, open(mp, "w"), indent=1)
    det = m.get("detected_by") or []
    d = det[0] if det else {"check": "-", "outcome": "not run", "first_report": ""}
    rows.append(f"| {sid} | {m['change'][:95]} | {d['check']} | {d['outcome']} | `{d['first_report'][:70]}` |")
print("| Id | Change | Check | Outcome | First report (family: oracle verdict) |")
print("|----|--------|-------|---------|------|")
print("\n".join(rows))
