#!/usr/bin/env python3
"""
confirm_seed.py <outdir> <worktree> [race] — confirm one seeded change independently of whoever wrote it.

<outdir> holds patch.diff and demo_test.go (an external or in-package Go test).  <worktree> is a clean
scratch git worktree of /repo (outside /repo and /verif).  Steps, all in the worktree:
  1. demo on the clean tree          -> must pass
  2. apply patch; go build ./...     -> must compile
  3. existing test suite, unedited   -> must pass
  4. demo with the patch             -> must fail
  5. restore the worktree
Prints one JSON object with the outcome of every step.
"""
import sys, os, subprocess, json, re, shutil

ENV = dict(os.environ, GOFLAGS="-mod=mod", GOPROXY="off", GOSUMDB="off", GOTOOLCHAIN="local")
PKGDIR = {"ws_test": ".", "ws": ".", "wsutil_test": "wsutil", "wsutil": "wsutil",
          "wsflate_test": "wsflate", "wsflate": "wsflate", "tests": "tests", "tests_test": "tests"}


def sh(cmd, cwd, timeout=1500):
    p = subprocess.run(cmd, cwd=cwd, env=ENV, shell=isinstance(cmd, str), text=True, errors="replace",
                       stdout=subprocess.PIPE, stderr=subprocess.STDOUT, timeout=timeout)
    return p.returncode, p.stdout


def main():
    out, wt = sys.argv[1], sys.argv[2]
    race = len(sys.argv) > 3 and sys.argv[3] == "race"   # the demonstration needs the race detector
    if race:
        ENV["CGO_ENABLED"] = "1"
    demo_flags = ["-race"] if race else []
    res = {"outdir": out, "demo_needs_race_detector": race}
    demo = os.path.join(out, "demo_test.go")
    pkg = re.search(r"^package\s+(\S+)", open(demo).read(), re.M).group(1)
    d = PKGDIR[pkg]
    dst = os.path.join(wt, d, "zz_seed_demo_test.go")
    names = re.findall(r"^func (Test\w+)\(", open(demo).read(), re.M)
    run = "^(" + "|".join(names) + ")$"
    res["demo_pkg"], res["demo_tests"] = d, names
    sh("git checkout -- . && git clean -fdq", wt)
    try:
        shutil.copyfile(demo, dst)
        rc, o = sh(["go", "test"] + demo_flags + ["-vet=off", "-count=1", "-run", run, "./" + d], wt)
        res["demo_clean_pass"] = rc == 0
        if rc != 0:
            res["demo_clean_out"] = o[-1500:]
        os.remove(dst)
        rc, o = sh(["git", "apply", os.path.join(out, "patch.diff")], wt)
        res["applies"] = rc == 0
        rc, o = sh("git diff --stat | tail -1", wt)
        res["diffstat"] = o.strip()
        rc, o = sh(["go", "build", "./..."], wt)
        res["compiles"] = rc == 0
        rc, o = sh(["go", "test", "-vet=off", "-count=1", "./..."], wt)
        res["suite_pass_with_patch"] = rc == 0
        if rc != 0:
            res["suite_out"] = o[-1500:]
        shutil.copyfile(demo, dst)
        rc, o = sh(["go", "test"] + demo_flags + ["-vet=off", "-count=1", "-run", run, "./" + d], wt)
        res["demo_fails_with_patch"] = rc != 0
        res["demo_patched_tail"] = o[-600:]
    finally:
        if os.path.exists(dst):
            os.remove(dst)
        sh("git checkout -- . && git clean -fdq", wt)
    res["confirmed"] = all(res.get(k) for k in ("demo_clean_pass", "applies", "compiles",
                                                  "suite_pass_with_patch", "demo_fails_with_patch"))
    print(json.dumps(res))


if __name__ == "__main__":
    main()
