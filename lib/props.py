"""Per-property configuration of ./check (Lean modules holding the obligations, trusted base,
generator description)."""

COMMON_ASSUME = [
    "encoding/binary.BigEndian, io.ReadFull and bytes.Buffer are modelled by their documented contract",
    "bytes are naturals < 256 (hypothesis Bytes.WF wherever a theorem needs it; the harness only produces real bytes)",
]

PROPS = {
    "C01": {
        "lean": ["WsVerif.Props.C01", "WsVerif.Bridge.C01"],
        "level_text": "Kernel-checked theorems for every header in the domain and every byte string under every chunking: "
                      "encoder = RFC 6455 §5.2 arithmetic layout (minimal form), HeaderSize = emitted length, both decoders = §5.2 decoder "
                      "(value, error class, bytes consumed) and equal to each other, header and frame round trips. Model tied to the source by a "
                      "regenerated translation of HeaderSize/constants (bridge lemma) and ~50k-case differential correspondence incl. a "
                      "bounded-exhaustive header lattice; the oracle also judges the implementation's bytes directly.",
        "level_note": "Trusted: Lean kernel, my reading of §5.2 (Spec/Header.lean), wsfacts translator, the correspondence harness; "
                      "stdlib encoding/binary and io.ReadFull modelled by contract. Domain: Rsv<8, OpCode<16, 0<=Length<2^63.",
        "rule": "Bounded-exhaustive lattice Fin x Rsv(0..7) x OpCode(0..15) x Masked x 3 keys x 16 length classes "
                "(0,1,124..127,255,256,65534..65537,2^31-1,2^31,2^32,2^63-1) through WriteHeader/HeaderSize; "
                "ReadHeader and Reader.NextFrame(SkipHeaderCheck) on every lattice header + trailing garbage under "
                "chunkings {whole,1,3}, every truncation point of a sample (EOF and failing transport), random and "
                "structured byte strings (MSB set, non-minimal forms); whole frames around 125/126 and 65535/65536.",
        "exhaustive_families": ["wh (header lattice)"],
        "trusted_base": [
            "Spec/Header.lean (rfcEncode/rfcDecode): my arithmetic reading of RFC 6455 §5.2",
            "Model/Header.lean mirrors write.go, read.go, wsutil/reader.go:readHeader, frame.go:CompileFrame by hand; "
            "tied by correspondence (wh/rh/wf/rf families) and by Bridge.C01 (HeaderSize translation, constants)",
        ],
        "assumptions": COMMON_ASSUME + [
            "Header domain: Rsv < 8, OpCode < 16, 0 <= Length < 2^63, Mask zero when not masked",
            "ReadFrame's allocation of Header.Length bytes is not modelled here (C15)",
        ],
    },
}

PROPS["C02"] = {
    "lean": ["WsVerif.Props.C02", "WsVerif.Bridge.C02"],
    "rule": "ws.Cipher on the grid len 0..80 x 12 offsets (0..9, 2^31, 2^62+3) x slice alignment 0..7 x 4 keys (incl. the zero key) "
            "plus random long payloads; CipherReader under transport chunkings 0..18, caller buffer schedules, EOF / failing transport, "
            "data arriving together with the error; CipherWriter write sequences with a short destination accept and caller-slice "
            "snapshots; the six Mask*/Unmask* helpers with before/after snapshots of the caller's payload.",
    "exhaustive_families": ["cipher (len x offset x alignment grid; thorough tier only, quick samples one third)"],
    "trusted_base": [
        "Spec/Cipher.lean (xorSpec): RFC 6455 §5.3 verbatim",
        "Model/Cipher.lean mirrors cipher.go, wsutil/cipher.go, frame.go Mask*/Unmask* by hand; tied by correspondence "
        "(cipher/crd/cwr/mf families) and Bridge.C02 (remain table regenerated from source)",
        "encoding/binary.LittleEndian modelled by contract (little-endian base-256 digits)",
    ],
    "assumptions": COMMON_ASSUME + ["offset + len < 2^63 (Go int does not wrap)",
                                    "aliasing (copy vs in place) is observed by the harness, not proved: the model returns the caller's slice explicitly"],
    "level_text": "Kernel-checked: ws.Cipher = per-byte XOR with key[(offset+i) mod 4] for every payload, key and offset (byte loop, head, "
                  "16-byte little-endian word loop — proved lane by lane from Nat.xor div/mod lemmas — and tail), involution, chunk additivity, "
                  "CipherReader/CipherWriter under every chunking / short write / data-with-EOF, Mask*/Unmask* header fields and copies. "
                  "Model tied to source by the regenerated `remain` table and ~6k (quick) / ~150k (thorough) differential cases.",
    "level_note": "Trusted: Lean kernel, xorSpec, correspondence harness; LittleEndian and pbytes pool by contract; offsets below 2^63.",
}

NOT_APPLICABLE = {}
