"""Per-property configuration of ./check (Lean modules holding the obligations, trusted base,
generator description)."""

COMMON_ASSUME = [
    "encoding/binary.BigEndian, io.ReadFull and bytes.Buffer are modelled by their documented contract",
    "bytes are naturals < 256 (hypothesis Bytes.WF wherever a theorem needs it; the harness only produces real bytes)",
]

PROPS = {
    "C01": {
        "lean": ["WsVerif.Props.C01", "WsVerif.Props.C01Seq", "WsVerif.Bridge.C01"],
        "level_text": "Kernel-checked theorems for every header in the domain and every byte string under every chunking: "
                      "encoder = RFC 6455 §5.2 arithmetic layout (minimal form), HeaderSize = emitted length, both decoders = §5.2 decoder "
                      "(value, error class, bytes consumed) and equal to each other, in whatever state the message reader is (the decoder keeps nothing "
                      "from one header to the next: nextFrame_reports_decoded), header and frame round trips. Model tied to the source by a "
                      "regenerated translation of HeaderSize/constants (bridge lemma) and ~50k-case differential correspondence incl. a "
                      "bounded-exhaustive header lattice; the oracle also judges the implementation's bytes directly.",
        "level_note": "Trusted: Lean kernel, my reading of §5.2 (Spec/Header.lean), wsfacts translator, the correspondence harness; "
                      "stdlib encoding/binary and io.ReadFull modelled by contract. Domain: Rsv<8, OpCode<16, 0<=Length<2^63.",
        "rule": "Bounded-exhaustive lattice Fin x Rsv(0..7) x OpCode(0..15) x Masked x 3 keys x 16 length classes "
                "(0,1,124..127,255,256,65534..65537,2^31-1,2^31,2^32,2^63-1) through WriteHeader/HeaderSize; "
                "ReadHeader and Reader.NextFrame(SkipHeaderCheck) on every lattice header + trailing garbage under "
                "chunkings {whole,1,3}, runs of 2-5 headers on ONE reader (every ordered pair masked/unmasked x length form), every truncation point of a sample (EOF and failing transport), random and "
                "structured byte strings (MSB set, non-minimal forms); whole frames around 125/126 and 65535/65536.",
        "exhaustive_families": ["wh (header lattice)"],
        "trusted_base": [
            "Spec/Header.lean (rfcEncode/rfcDecode): my arithmetic reading of RFC 6455 §5.2",
            "Model/Header.lean mirrors write.go, read.go, wsutil/reader.go:readHeader, frame.go:CompileFrame by hand; "
            "tied by correspondence (wh/rh/wf/rf families) and by Bridge.C01 (HeaderSize translation, constants)",
        ],
        "assumptions": COMMON_ASSUME + [
            "Header domain: Rsv < 8, OpCode < 16, 0 <= Length < 2^63, Mask zero when not masked",
            "ReadFrame's allocation of Header.Length bytes is not modelled here (C15)",
        ],
    },
}

PROPS["C02"] = {
    "lean": ["WsVerif.Props.C02", "WsVerif.Bridge.C02", "WsVerif.Bridge.Bodies"],
    "rule": "ws.Cipher on the grid len 0..80 x 12 offsets (0..9, 2^31, 2^62+3) x slice alignment 0..7 x 4 keys (incl. the zero key) "
            "plus random long payloads; CipherReader under transport chunkings 0..18, caller buffer schedules, EOF / failing transport, "
            "data arriving together with the error; CipherWriter write sequences with a short destination accept and caller-slice "
            "snapshots; the six Mask*/Unmask* helpers with before/after snapshots of the caller's payload.",
    "exhaustive_families": ["cipher (len x offset x alignment grid; thorough tier only, quick samples one third)"],
    "trusted_base": [
        "Spec/Cipher.lean (xorSpec): RFC 6455 §5.3 verbatim",
        "Model/Cipher.lean mirrors cipher.go, wsutil/cipher.go, frame.go Mask*/Unmask* by hand; tied by correspondence "
        "(cipher/crd/cwr/mf families) and Bridge.C02 (remain table regenerated from source)",
        "encoding/binary.LittleEndian modelled by contract (little-endian base-256 digits)",
    ],
    "assumptions": COMMON_ASSUME + ["offset + len < 2^63 (Go int does not wrap)",
                                    "aliasing (copy vs in place) is observed by the harness, not proved: the model returns the caller's slice explicitly"],
    "level_text": "Kernel-checked: ws.Cipher = per-byte XOR with key[(offset+i) mod 4] for every payload, key and offset (byte loop, head, "
                  "16-byte little-endian word loop — proved lane by lane from Nat.xor div/mod lemmas — and tail), involution, chunk additivity, "
                  "CipherReader/CipherWriter under every chunking / short write / data-with-EOF, Mask*/Unmask* header fields and copies. "
                  "Model tied to source by the regenerated `remain` table and ~6k (quick) / ~150k (thorough) differential cases.",
    "level_note": "Trusted: Lean kernel, xorSpec, correspondence harness; LittleEndian and pbytes pool by contract; offsets below 2^63.",
}

PROPS["C03"] = {
    "lean": ["WsVerif.Props.C03", "WsVerif.Bridge.C03"],
    "rule": "Exhaustive Fin x Rsv(0..7) x OpCode(0..15) x Masked x 10 length classes x all 16 endpoint states through ws.CheckHeader "
            "(102,400 headers); all 65,536 status codes through the StatusCode predicates and CheckCloseFrameData with 11 reasons "
            "(empty, ASCII, 2/3/4-byte, overlong, surrogate, truncated, > U+10FFFF, 0xFF; quick samples 1/7 of the non-boundary codes); "
            "NewCloseFrameBody/ParseCloseFrameData(Unsafe) for reason lengths 0..130 with multibyte code points at the crop point.",
    "exhaustive_families": ["chk", "pred", "spred", "cls (thorough)"],
    "trusted_base": [
        "Spec/Check.lean: the eight framing rules of RFC 6455 §5 and the close-code ranges of §7.4, arithmetic only",
        "Spec/Utf8.lean (Table 3-7) stands for unicode/utf8.ValidString; cross-checked against Go's utf8.ValidString on every cls case",
        "Model/Check.lean is bridged lemma-by-lemma (Bridge.C03) to the wsfacts translation of CheckHeader, CheckCloseFrameData, "
        "State.*, OpCode.*, StatusCode.*, Rsv, RsvBits regenerated from the source on every run",
    ],
    "assumptions": COMMON_ASSUME + ["OpCode < 16, State < 256 (their Go types are 4-bit-on-the-wire / uint8)",
                                    "codes 1012-1014 and >= 5000 are left open, as in the property"],
    "level_text": "Kernel-checked: CheckHeader accepts iff none of the eight RFC rules is broken and any error it reports names a broken rule "
                  "(exhaustive kernel evaluation of the cascade over the 2^8 x 16 abstract fact space, lifted to all headers/states); "
                  "CheckCloseFrameData accepts 1000-1003, 1007-1011, 3000-4999 with valid UTF-8 and refuses every other code < 5000 except "
                  "1012-1014 and every invalid reason; close bodies <= 125 bytes and parse back. The model is provably equal (Bridge.C03) to the "
                  "mechanical translation of the current Go source, and ~360k differential cases (exhaustive header x state grid) agree.",
    "level_note": "Trusted: Lean kernel, Spec/Check.lean, wsfacts translator (cross-checked by exhaustive correspondence); utf8.ValidString by contract.",
}

PROPS["C07"] = {
    "lean": ["WsVerif.Props.C07", "WsVerif.Props.C07Stream", "WsVerif.Props.C07Install", "WsVerif.Props.C07End", "WsVerif.Props.C07ReadMessage", "WsVerif.Props.C07ReadMessageFrag", "WsVerif.Props.C04ReadData", "WsVerif.Props.C04ReadDataSkip", "WsVerif.Props.C04DiscardText", "WsVerif.Bridge.C07", "WsVerif.Bridge.C04", "WsVerif.Bridge.Bodies", "WsVerif.Props.C08ReadDataFragText"],
    "rule": "Reader wiring: 16 (quick) / 316 (thorough) text payloads (valid, truncated, overlong, surrogate, > U+10FFFF) under EVERY split into "
            "three fragments, with and without ping/pong (non-UTF-8 payloads) between the fragments, followed on the same reader by a binary "
            "message holding invalid UTF-8 and another text message; chunkings {whole,1,2,5}; through ReadMessage, ReadData, Reader+ReadAll "
            "with and without CheckUTF8. UTF8Reader: all byte strings of length <= 2, 3-byte strings over lead C0..FF x 70..CF x 78..C7 (all in thorough, 1/16 in quick), "
            "every lead byte E0..FF x boundary continuation values for 4-byte forms, long strings assembled from valid / overlong / surrogate / "
            "truncated pieces; each under transport chunkings 0..5, six caller buffer schedules, EOF / failing / data-with-EOF transports. "
            "Every string is also judged by Go's utf8.Valid and by Lean core's String.validateUTF8.",
    "exhaustive_families": ["u8 (all strings of length <= 2)"],
    "trusted_base": [
        "Spec/Utf8.lean: Unicode Table 3-7 as a 9-position automaton; cross-checked at run time against Go's utf8.Valid and Lean core's validator",
        "Model/Utf8.lean mirrors wsutil/utf8.go; its table is proved equal (Bridge.C07) to the table regenerated from the source",
    ],
    "assumptions": COMMON_ASSUME + ["codep (decoded code point) is unobservable and not modelled"],
    "level_text": "Kernel-checked: all 9 x 256 transitions of the Hoehrmann table equal the Table 3-7 transition (decide over the regenerated table), "
                  "lifted by induction to every byte string, every split point and every chunking of the validating reader; REJECT sticky. "
                  "Stream level (Props/C07Stream.text_message): a reader with CheckUTF8 on, between messages, given a text message in ANY fragmentation, with control "
                  "frames between the fragments, under ANY transport chunking and ANY caller buffer sizes, ends the message with io.EOF having delivered exactly the "
                  "payload iff the concatenated payload is well-formed (Table 3-7); otherwise the Reads hand out a prefix and then ErrInvalidUTF8 (at the first byte "
                  "leaving the table, or at the end of a message that stops inside a character), never io.EOF - proved by simulating the checking reader with the "
                  "non-checking one (Proofs/ReaderText: read_sim, reads_sim) over C04.message_delivered. ReadMessage on an unfragmented text message (Props/C07ReadMessage.readMessage_single_text): [(text, payload)] with no error iff the payload is "
                  "well-formed, ErrInvalidUTF8 otherwise, any chunking - io.ReadFull never drops the verdict because the checking reader reports fewer bytes than "
                  "asked for whenever it reports ErrInvalidUTF8 (count bound in SimOut). The same on a FRAGMENTED text message (Props/C07ReadMessageFrag.readMessage_fragmented_text): for any fragmentation, interleaved control frames "
                  "and chunking, ReadMessage returns the controls and then the text iff the concatenated payload is well-formed, ErrInvalidUTF8 otherwise - the text "
                  "simulation redone with the collecting handler installed (Proofs/ReaderBin: read_sim_collect, pull_sim). PARTIAL: the ReadData family (handlers that write "
                  "replies) is covered by correspondence and the oracle, not by a stream theorem (Discard: C04.message_skipped_any). "
                  "The unchanged tree violated the property (F20: a text message cut inside a character returned as complete by ReadMessage when the source "
                  "failed along with the last bytes) - found by the oracle once the Fd transport kind entered the single-frame text family, repaired by fix "
                  "commit 6a7a1a5; C07End.end_of_invalid_text_is_reported states the repaired behaviour for every Read.",
    "level_note": "Trusted: Lean kernel, Table 3-7 transcription, harness; stream theorem scope: no receive extension, OnIntermediate unset.",
}

PROPS["C06"] = {
    "lean": ["WsVerif.Props.C06", "WsVerif.Props.C06Flush", "WsVerif.Props.C06Sessions", "WsVerif.Bridge.C06", "WsVerif.Bridge.Bodies"],
    "rule": "Operation sequences over Write/WriteThrough/FlushFragment/Flush/ReadFrom/Grow (+ DisableFlush, SetExtensions, ResetOp): "
            "exhaustive to depth 3 over an alphabet of sizes {0,1,avail-1,avail,avail+1,2*avail} relative to the buffer, for 4 (quick) / 8 "
            "(thorough) constructors x both sides; buffers of every size 126..136 and 65536..65550 filled to avail-1/avail/avail+1 with "
            "and without flushing disabled; every constructor incl. GetWriter size classes; random sequences up to 30 (quick) / 200 "
            "(thorough) ops with extensions and failing/empty-read sources; WriteMessage at 0,1,125,126,65535,65536 bytes. Masks are drawn "
            "from a per-case seeded math/rand and given to the model as input. The oracle parses the destination bytes with the C01 §5.2 "
            "decoder and judges message shape, masking, RSV and byte accounting without reference to the model.",
    "exhaustive_families": ["wr (depth-3 alphabet sequences per constructor)"],
    "trusted_base": [
        "Driver/C06.lean oracle (frame-stream well-formedness + byte accounting): my reading of the property",
        "Model/Writer.lean mirrors wsutil/writer.go by hand (incl. gobwas/pool's size classes for GetWriter); tied by exact per-op "
        "correspondence of results and destination writes, and Bridge.C06 (reserve, headerSize regenerated from source)",
        "math/rand seeding makes ws.NewMask() an input; pbytes pool not modelled (functional behaviour only)",
    ],
    "assumptions": COMMON_ASSUME + ["at most the wsflate.MessageState send extension is attached (an extension whose SetBits errors makes "
                                    "Write spin, DESIGN §7 N1)", "destination honours io.Writer (n == len(p) on success)"],
    "level_text": "Kernel-checked: history_ok - after ANY sequence of Write / WriteThrough / FlushFragment / Flush from a message boundary the frames sent are whole messages followed by the non-final frames of the message still open (first frame with the configured opcode and the extension's RSV, the rest continuations with RSV 0, exactly the last frame of each message final, final frames from Flush only) and the concatenated payloads followed by what is buffered equal the accepted bytes in order; the byte-level writer refines that frame-level writer operation by operation (flush/flushFrag/writeThrough/write_refines: exact wire bytes incl. the §5.2 header, masking with the drawn key iff client, the fill-flush-through loop of Write for every size relative to the buffer) AND over every history (run_refines / wire_history_ok: after any operation sequence the destination holds exactly the RFC encodings of the frames of history_ok, keys drawn in order; accepted_is_written: every byte handed to Write is accepted); header-reservation arithmetic across 125/126 and 65535/65536 (no flush can panic); empty flush emits nothing; a Flush right after Reset / ResetOp or after a successful Flush sends nothing (C06Flush). PARTIAL: ReadFrom, Grow/DisableFlush, SetExtensions/ResetOp inside a history and destination failures are per-operation theorems (C16, C18) + ~14k exact correspondences per run and the independent frame-stream oracle.",
    "level_note": "Trusted: Lean kernel, the oracle's reading of the property, harness. Histories of Write/WriteThrough/FlushFragment/Flush are proved at the byte level; the other operations by per-operation theorems and correspondence.",
}

READER_TB = [
    "Spec/Stream.lean (frame-stream parser, the C03 rules threaded through the fragmentation state, message units = first opcode + "
    "concatenation of unmasked fragment payloads): my reading of RFC 6455 §5.4-5.6",
    "Driver/C04Oracle.lean judges observed deliveries, errors, bytes consumed and automatic control replies from the raw stream, "
    "independently of the model",
    "Model/Reader.lean, Model/Helper.lean, Model/Control.lean mirror wsutil/reader.go, helper.go, handler.go by hand; tied by exact "
    "correspondence (results, errors, bytes consumed, destination writes) on every generated case",
    "ioutil.ReadAll / io.ReadFull / bytes.Buffer.ReadFrom / io.Copy modelled as read-until-error loops with a fixed read size",
]

PROPS["C04"] = {
    "lean": ["WsVerif.Props.C04", "WsVerif.Props.C04Cb", "WsVerif.Props.C04Discard", "WsVerif.Props.C04DiscardMsg", "WsVerif.Props.C04DiscardText", "WsVerif.Props.C04ReadMessage", "WsVerif.Props.C04ReadAll", "WsVerif.Props.C04ReadMessageFrag", "WsVerif.Props.C04ReadData", "WsVerif.Props.C04ReadDataSkip", "WsVerif.Props.C08ReadData", "WsVerif.Bridge.C04", "WsVerif.Props.C08Intermediate", "WsVerif.Props.C08ReadDataFrag", "WsVerif.Props.C08DiscardFrag", "WsVerif.Props.C08ReadDataHistory", "WsVerif.Props.C08ReadDataFragText"],
    "rule": "Valid frame streams from a grammar (1-4 messages, 1-4 fragments incl. empty ones, ping/pong with 0..125-byte payloads between "
            "fragments and between messages, payload classes 0,1,2,7,8,125,126,300 (+70000 in thorough), text built from 1-4-byte code "
            "points, both sides) replayed under transport chunkings {whole,1,2,3,7,random}, EOF and data-with-EOF transports, through "
            "ReadMessage, ReadData / Read{Client,Server}{Data,Text,Binary}, and Reader scripts (NextFrame + ReadAll | Read with buffers "
            "1,2,3,5,512,4096 | Discard per message, collecting OnIntermediate), plus NextReader.",
    "trusted_base": READER_TB,
    "assumptions": COMMON_ASSUME + ["caller buffers are non-empty", "callbacks read only from the reader they are given",
                                    "no earlier error on the same reader (DESIGN §7 N2)"],
    "level_text": 'Kernel-checked: message_delivered - for every data message (any number of fragments, empty ones included, control frames interleaved anywhere, masked or not), every chunking of the transport (empty chunks, data together with io.EOF) and every sequence of positive caller buffer sizes, what Reader.Read hands out is a prefix of the concatenation of the unmasked fragment payloads; no error but the final io.EOF is possible; io.EOF is reached within (bytes + chunks + 1) Reads; then the whole message has been delivered, the transport stands exactly behind its last frame and the reader is reset like a new one. Built on C01 (chunk-independent header decoding), C02 (cipher = XOR at any offset) and a one-Read step invariant (Proofs/Reader.lean). With an OnIntermediate handler (Props/C04Cb.message_delivered_collect, the handler wsutil.ReadMessage installs): the same delivery, and when io.EOF is reached the handler has been called exactly once per interleaved control frame, in stream order, with that frame\'s opcode and exact unmasked payload (step_cb / reads_cb in Proofs/ReaderCb thread the handler\'s log through the stream invariant). With CheckUTF8 on: C07.text_message. PARTIAL in scope: reader without receive extension, transport not delivering its last bytes together with a failure; Discard: message_skipped / message_skipped_any - NextFrame then Discard from anywhere inside a message consumes exactly the rest of it (fragments and interleaved controls) for any chunking, CheckUTF8 on or off, no error, transport at the next message. The helper loops themselves: readAll_message (ioutil.ReadAll over the reader, with and without the collecting handler), readMessage_single / readMessage_fragmented (wsutil.ReadMessage on unfragmented and on fragmented non-text messages, CheckUTF8 on as in the helper: controls first, then the one message; text: C07.readMessage_single_text). fragmented text: C07.readMessage_fragmented_text). The ReadData family (ReadClientData, ReadServerText, ...): readData_single(_text), and over HISTORIES on one connection readData_after_history / readData_text_after_history (Props/C04ReadDataSkip, C08ReadData) - behind any number of pings and unwanted unfragmented messages in any order, exactly one pong per ping (identical payload, in order) has been written, nothing else, and the first wanted message is returned as if it had come first (text iff well-formed); C05ReadData / C16ReadData: an offending frame or a cut payload behind such a history. A FRAGMENTED wanted non-text message through ReadData with pings (0..125 bytes) and pongs between its fragments, behind any such history: C08ReadDataFrag.readData_fragmented_after_history (payloads concatenated, first opcode, no error, transport behind the message, exactly the pongs of the history then those of the pings between the fragments written) - C08Intermediate.readAll_message_pongs for the non-checking reader transported through Proofs/ReaderBinG (the strip simulation for any handler that ignores the UTF-8 fields). Fragmented UNWANTED messages (text or not) with pings and pongs between their fragments are history items too (C08DiscardFrag.loop_skip_frag, C08ReadDataHistory.loop_history2 and readData_*_after_any_history). A fragmented TEXT message as the wanted one (C08ReadDataFragText.readData_fragmented_text_after_any_history): delivered, with the pongs written, iff the whole payload is well-formed UTF-8 wherever the fragment boundaries fall - through the text simulation for any handler (Proofs/ReaderBinG2) and the fact that the control handler never reports io.EOF (Proofs/HandlerEof). Close frames between fragments: stream oracle + exact correspondence (~5k quick / ~100k thorough cases), not a theorem.',
    "level_note": 'Trusted: Lean kernel, Spec/Stream.lean (oracle), Model/Reader.lean as a hand model tied by correspondence, harness.',
}

PROPS["C05"] = {
    "lean": ["WsVerif.Props.C05", "WsVerif.Props.C05Ext", "WsVerif.Props.C05Discard", "WsVerif.Props.C05ReadData", "WsVerif.Props.C16ReadMessage", "WsVerif.Props.C16Handler", "WsVerif.Bridge.C04"],
    "rule": "Every valid prefix of 0..2 complete units (optionally followed by an open fragmented message, with interleaved pong) extended by "
            "every offending frame of the alphabet (reserved data/control opcode, control > 125, non-final control, RSV without extension, RSV on "
            "control, wrong masking on data and on control, new data frame while fragmented, continuation while idle, wrongly masked "
            "continuation) and a valid frame after it that must never be delivered; MaxFrameSize at len-1, len, len+1; a 64-bit length with "
            "the top bit set; both sides; chunkings {whole,1,3,random}; through ReadMessage, the ReadData family and Reader scripts.",
    "exhaustive_families": ["prefix shape x offending-frame alphabet x side (bounded-exhaustive)"],
    "trusted_base": READER_TB,
    "assumptions": COMMON_ASSUME + ["what a caller does with the reader after it returned an error is outside the property"],
    "level_text": 'Kernel-checked: reject_at_first_bad - a message whose frames are valid up to some point followed by an offending frame (a framing rule broken in the state built up so far, or a length over MaxFrameSize): for every transport chunking and caller buffer schedule the Reads deliver exactly the data of the valid frames with no error, and the Read that reaches the offending frame returns the protocol error / ErrFrameTooLarge with zero bytes, the transport standing right behind the offending header (no payload byte read); first_frame_rejected for a message start; the reported rule is really broken (C03); rsv_refused_without_negotiation - an attached extension does not lift the RSV rule while State lacks StateExtended. discard_rejects_later_bad - Discard from anywhere inside a message whose later frame breaks a rule returns that protocol error instead of skipping past it. readData_refuses_bad_frame - the ReadData family behind any history of pings and unwanted messages returns the protocol error of the first offending frame, no data, transport right behind that header. Same scope restrictions as C04 for the stream theorems (no extension, CheckUTF8 off, OnIntermediate unset); control frames over the limit, SkipHeaderCheck and ReadMessage on offending frames are decided by the oracle + correspondence.',
    "level_note": "Trusted: Lean kernel, Spec/Stream.lean, harness and oracle.",
}

PROPS["C16"] = {
    "lean": ["WsVerif.Props.C16", "WsVerif.Props.C16Discard", "WsVerif.Props.C16DiscardMsg", "WsVerif.Props.C16DiscardCut", "WsVerif.Props.C16ReadData", "WsVerif.Props.C16ReadMessage", "WsVerif.Props.C16Handler", "WsVerif.Bridge.C04"],
    "rule": "Reader: streams of 1-3 messages (with a 10-byte ping between fragments) cut at EVERY byte offset, ending in EOF and in a transport "
            "error, under chunkings {whole,1,5}, through ReadMessage, the ReadData family and Reader scripts. Writer: random op sequences "
            "with the destination failing at each write index 0..13, followed by Flush/Write/Flush/FlushFragment/WriteThrough probes; "
            "WriteMessage with each of its writes failing. (Handshake cuts are added with C09/C10.)",
    "exhaustive_families": ["cut offsets per stream", "failing destination write index per sequence"],
    "trusted_base": READER_TB + ["Driver/C06.lean oracle: after a destination error no byte is sent and every write/flush reports it"],
    "assumptions": COMMON_ASSUME + ["a frame header cut after its first two bytes is io.EOF outside a fragmented message (an error, not success; DESIGN §7 N9)",
                                    "ReadFrom after a sticky error is outside 'write and flush' (N7)"],
    "level_text": "Kernel-checked: cut_payload_never_succeeds - inside a frame of which the transport holds fewer bytes than announced, every sequence of Reads hands out only a genuine unmasked prefix and ends in io.ErrUnexpectedEOF or the transport's failure (never io.EOF), within (bytes + chunks + 1) Reads; stream_ends_between_fragments - after any valid prefix of an open message a clean transport end is io.ErrUnexpectedEOF; discard_cut / discard_open_tail - Discard of a cut frame, or of a message whose stream ends between two frames after any number of complete fragments and controls, reports io.ErrUnexpectedEOF (or the transport failure), never nil; once the writer's error is set Write, WriteThrough, Flush and FlushFragment return it and leave the destination untouched; a failing flush sets it. The unchanged tree violated the property (F9, F10) - found by the oracle, repaired by fix commit 4fb3446. readData_cut_never_succeeds - the ReadData family never returns a message whose payload was cut short (behind any history of pings and unwanted messages): io.ErrUnexpectedEOF or the transport failure. PARTIAL: handshake cuts, control-handler hand-over of cut payloads and ws.ReadFrame are enumerated at every cut offset (oracle), not theorems.",
    "level_note": "Trusted: Lean kernel, harness, oracle. Handshake part pending the HTTP model.",
}

PROPS["C08"] = {
    "lean": ["WsVerif.Props.C08", "WsVerif.Props.C08ReadData", "WsVerif.Props.C08ReadDataClose", "WsVerif.Props.C08Intermediate", "WsVerif.Props.C08ReadDataFrag", "WsVerif.Props.C08DiscardFrag", "WsVerif.Props.C08ReadDataHistory", "WsVerif.Props.C08ReadDataFragText", "WsVerif.Props.C04Cb", "WsVerif.Props.C04ReadAll", "WsVerif.Props.C04ReadMessageFrag", "WsVerif.Bridge.C08"],
    "rule": "ControlHandler.Handle (masked source on the server side), ControlFrameHandler and HandleControlMessage (Client/Server variants) "
            "for ping, pong, close x payload lengths 0..125 (all in thorough; 0..12, every 9th, 118..125 in quick) x both sides; all 65,536 "
            "close codes (thorough; 1/13 + the boundary windows in quick) with no / valid / truncated / 0xFF reasons; 1-byte close payloads; "
            "non-control opcodes; the ReadData control path is exercised by C04/C05/C16 families; ControlWriter: all sequences of <= 3 "
            "writes over sizes {0,1,62,63,124,125,126} + Flush for NewControlWriter and NewControlWriterBuffer(200,131,127,40), both sides.",
    "exhaustive_families": ["cw (write sequences to depth 2-3)", "ctl (opcode x length x side x entry point, thorough)"],
    "trusted_base": READER_TB[:2] + [
        "Driver/C04Oracle.lean:replyFor/judgeCtl — the replies RFC 6455 §5.5 asks for, judged on the destination bytes with the C01 decoder, "
        "the C02 XOR and the C03 close-code predicate",
        "Model/Control.lean mirrors wsutil/handler.go and ControlWriter by hand; exact correspondence of errors and destination writes",
    ],
    "assumptions": COMMON_ASSUME + ["the handler's source delivers the frame's payload (it is the message reader or a bytes.Reader)",
                                    "close codes 1012-1014 and >= 5000: either reply accepted (left open by C03)",
                                    "which of 1002/1007 is used for an invalid close is left open; the library always sends 1002"],
    "level_text": "Kernel-checked: ControlWriter invariant over EVERY sequence of writes (running count exact, <= 125, nothing sent before "
                  "Flush, over-limit writes refused), Flush = exactly one final control frame of <= 125 bytes masked iff client; a ping of "
                  "1..125 bytes read in any chunking is answered by exactly one pong with the identical payload; empty / valid / invalid "
                  "close frames get the empty / echoed-code / 1002 reply and the right error value; every reply header passes the peer's "
                  "CheckHeader and the 1002 payload passes the peer's CheckCloseFrameData. The unchanged tree violated the property (F1: "
                  "client-side protocol-error reply unmasked and garbled; F2: ControlWriter never counted) — found by the oracle, repaired "
                  "by fix commits cf8539c and 3950338. Between the fragments of a message (Props/C08Intermediate.readAll_message_pongs): a wsutil.Reader with wsutil.ControlFrameHandler as OnIntermediate (CheckUTF8 off) reading ANY fragmentation with pings (0..125 bytes) and pongs interleaved anywhere, any chunking, delivers the message's data and writes exactly one pong per ping with the identical payload, in order, nothing else. In the helper loop (Props/C08ReadData.loop_ping / loop_history): wsutil.ReadData answers every "
                  "ping it meets before the wanted message with exactly that pong - one per ping, in order, nothing else written.",
    "level_note": "Trusted: Lean kernel, the reply oracle, harness; source-unmasking variant (server-side ControlHandler with a masked Src) is "
                  "covered by correspondence only.",
}

PROPS["C13"] = {
    "lean": ["WsVerif.Props.C13", "WsVerif.Props.C13History", "WsVerif.Props.C05Ext", "WsVerif.Bridge.C13", "WsVerif.Bridge.Bodies"],
    "rule": "MessageState.SetBits / UnsetBits (+ SetBit / UnsetBit / IsCompressed) on all compressed x Fin x RSV(0..7) x OpCode(0..15); "
            "writer sequences of compressed / uncompressed messages with SetExtensions switches x 5 buffer sizes x both sides (also in the "
            "C06 random sequences); reader with the extension attached on a fragmented message with every RSV pattern on the first frame, the "
            "continuation and an interleaved ping, both sides, plus compressed/uncompressed message sequences; full stack round trip "
            "wsflate.Writer -> wsutil.Writer+MessageState -> wire (ping injected between fragments) -> wsutil.Reader+MessageState -> "
            "wsflate.Reader for payloads 0..40000 bytes x buffer sizes x flate levels x chunkings.",
    "exhaustive_families": ["msb (state x header grid)", "rdr RSV patterns (thorough)"],
    "trusted_base": READER_TB[:3] + [
        "Model: extRsv / setBits / unsetBits in Model/Writer.lean, Model/Reader.lean; proved equal (Bridge.C13) to the wsfacts translation of "
        "MessageState.SetBits / UnsetBits regenerated from wsflate/extension.go",
        "the stack round trip uses real compress/flate on both ends (not modelled): judged by an oracle on the observed frames only",
    ],
    "assumptions": COMMON_ASSUME,
    "level_text": "Kernel-checked: the RSV bits of every frame the writer emits are extRsv(ext, opcode-or-continuation) = RSV1 exactly on the "
                  "first frame of a data message marked compressed and nothing on continuations / control opcodes; extRsv IS "
                  "MessageState.SetBits on a fresh header, and SetBits / UnsetBits ARE the translated Go source (bridge); UnsetBits updates "
                  "the state only on first data frames, clears RSV1 and leaves RSV2/3, is transparent for control and continuation frames "
                  "and rejects RSV1 there; the reader's NextFrame surfaces that rejection without disturbing the state. Over HISTORIES (Props/C13History): "
                  "sent_rsv1_first_frame_only - after ANY sequence of Write / WriteThrough / FlushFragment / Flush every message sent, complete "
                  "or still open, carries extRsv on frame 0 (RSV1 iff a compressed data message) and RSV 0 on every other frame, however it was "
                  "fragmented (a corollary of C06.history_ok); recv_history / recv_history_refused - over ANY sequence of headers the state is "
                  "the RSV1 of the most recent message start, continuation and control frames do not disturb it, headers are handed on with "
                  "RSV1 cleared exactly on message starts and the other bits untouched, and the first misplaced RSV1 ends the run with the "
                  "protocol error. PARTIAL: the compressed round trip through both stacks is decided by the oracle (compress/flate is not modelled).",
    "level_note": "Trusted: Lean kernel, wsfacts translator, harness; compress/flate not modelled.",
}

PROPS["C14"] = {
    "lean": ["WsVerif.Props.C14", "WsVerif.Bridge.C14"],
    "rule": "Full grid of 324 server configurations (2x2x9x9) x 360 single offers (2x2x9x10, incl. value-less client_max_window_bits) through "
            "Extension.Negotiate + Accepted (all in thorough, 1/5 in quick); Parameters.Option -> Parse for all 324 configurations; random "
            "lists of 1..4 items over 12 offers / a foreign extension / an unknown parameter / Reset; malformed values for each of 6 keys x "
            "20 values (\":\", \"1:\", overflowing 2^64+10, 2^32+10, 266, leading zeros, signs, blanks, non-ASCII digits); duplicated "
            "parameters in every order and with/without values.",
    "exhaustive_families": ["neg (configuration x single-offer grid, thorough)", "popt"],
    "trusted_base": [
        "Spec/Negotiate.lean: LegalAnswer = RFC 7692 §7.1.1.1, 7.1.2.1, 7.1.2.2; wellFormedParams = the offer grammar of §7",
        "Model/Negotiate.lean mirrors wsflate/extension.go and parameters.go by hand; tied by exact correspondence on the whole grid and by "
        "Bridge.C14 (the source-order list of Negotiate's conditions, Extension.Reset's assignments, isValidBits and WindowBits.Defined "
        "regenerated from the source)",
        "httphead.Option is modelled as name + ordered (key,value) list; the harness builds Options with Parameters.Set",
    ],
    "assumptions": COMMON_ASSUME + ["configured window bits are unset or 8..15 (CfgValid)", "leading zeros in window values are left open",
                                    "'acceptable' = what a fresh negotiator accepts (the library declines some offers a legal answer exists for)"],
    "level_text": "Kernel-checked for EVERY configuration and EVERY list of offers (no grid bound): at most one offer is accepted; it is the first "
                  "acceptable one in the client's order; the decision on a not-yet-accepted negotiator is independent of earlier declined or "
                  "rejected offers; the answer is a LegalAnswer per RFC 7692 §7.1 to the accepted offer; whatever Parse accepts has only the four "
                  "known names, no duplicates, value-less *_no_context_takeover and plain-decimal window values in 8..15 (so unknown, duplicated "
                  "and ill-valued parameters are errors); Option then Parse is the identity on all 360 parameter sets; Reset = fresh. The "
                  "unchanged tree violated the property (F6 inverted server_max_window_bits comparison, F7 value-less duplicate undetected, F8 "
                  "':' and overflowing values read as 10) — found by the oracle, repaired by fix commits 554a1dc, d55c418, 363140c.",
    "level_note": "Trusted: Lean kernel, Spec/Negotiate.lean, harness; the response header as written by ws.Upgrader is exercised under C09/C11.",
}

PROPS["C09"] = {
    "lean": ["WsVerif.Props.C09", "WsVerif.Props.C09Token", "WsVerif.Props.C10Digits", "WsVerif.Bridge.C09"],
    "rule": "Requests over a grammar through BOTH ws.Upgrader.Upgrade (over a chunked reader, chunk sizes 0/1/7/16/33, buffer sizes "
            "1/16/17/64/default) and ws.HTTPUpgrader.Upgrade (net/http's ReadRequest + a hijackable ResponseWriter): LF and CRLF, header "
            "names canonical/lower/upper; 6 methods; 25 version forms (1.0, 1.2, 1.10, 2.0, 0.9, '1.;', '1.:', ':.1', leading zeros, numbers "
            "beyond 2^64, missing parts); each of the 5 mandatory headers absent / 4-12 value variants (case, blanks and tabs, token lists with "
            "the token first/middle/last, quoted, wrong, empty, 23/25/48-character keys) / duplicated good-bad and bad-good; malformed header "
            "lines; reordering; subprotocol selector configurations x 13 header values (+ two header lines); wsflate negotiation and the "
            "deprecated selector x 14 extension header values; all 64 combinations of OnRequest/OnHost/OnHeader/OnBeforeUpgrade rejecting "
            "(custom status + headers, plain error, empty reason) or adding headers and the Header option; long lines against small buffers; "
            "random sampling of the same grammar (300 quick / 20000 thorough).",
    "exhaustive_families": ["callback combinations (thorough: all 64)"],
    "trusted_base": [
        "Spec/Sha1.lean: SHA-1 (FIPS 180-4) and base64 (RFC 4648) written from the standards, checked against the RFC 6455 §1.3 vector; "
        "crypto/sha1 and encoding/base64 (Go stdlib) are compared with it on every successful case, not verified",
        "Model/HttpHead.lean: the dependency github.com/gobwas/httphead v0.1.0 (lexer, ScanTokens, ScanOptions, WriteOptions) is MODELLED, "
        "quirks included, and compared byte-for-byte through every case",
        "Model/Http.lean, Model/Upgrader.lean mirror util.go, http.go, server.go by hand; tied by exact correspondence (error identity, "
        "returned Handshake, every byte written, bytes consumed from the transport) and by Bridge.C09: header names, the ten built-in error "
        "values (status, text, header), the 101 head, the GUID, the headerSeen bits and the source-order list of every condition in "
        "Upgrader.Upgrade, HTTPUpgrader.Upgrade, asciiToInt, httpParseVersion and httpWriteResponseError are regenerated from the source",
        "net/http's request parser in front of HTTPUpgrader is the real one in the harness; the model receives what it parsed",
        "bufio.Reader (stdlib) is modelled as far as readLine uses it (ReadSlice/fill/ErrBufferFull)",
        "the independent oracle (Driver/C09.lean: judgeUpgrade) re-parses the raw request with its own line splitter and decides "
        "soundness/completeness, accept value, subprotocol order, extension origin and the error response shape without the model",
    ],
    "assumptions": COMMON_ASSUME + [
        "a Sec-WebSocket-Key is judged by its length (24) only: a 24-character value that is not base64 is accepted by the code (N: "
        "observation F12, left open by the oracle as the statement's parenthesis makes length the stated criterion)",
        "left open by the oracle: empty Host value, leading zeros / numbers beyond int in the HTTP version, header lists that are not "
        "plain comma-separated tokens (completeness is demanded only for the strict reading, soundness uses the lenient one)",
        "callbacks are data (what they reject and with which status/reason/headers)",
    ],
    "level_text": "Kernel-checked for EVERY request and configuration (model of server.go): success of Upgrader.Upgrade implies GET, "
                  "HTTP/1.x with x>=1, no objecting callback, all five mandatory headers seen and every occurrence acceptable - a key that is "
                  "not 24 bytes long is always refused - and the bytes written are exactly the 101 response whose accept value is "
                  "base64(SHA-1(last key ++ GUID)); every head whose parsed lines are acceptable reaches the 101 writer (completeness of the "
                  "decision; the bytes-to-lines step is C11's readLine theorem: PARTIAL); on failure nothing or exactly the error response "
                  "is written and never the 101 writer, built-in errors carry 400/405/505/426 (+ Sec-WebSocket-Version: 13) and the body is "
                  "announced with its exact length; the selected subprotocol is accepted by the selector and every token before it was not; "
                  "returned extensions are answers to parsed offers; the same soundness and (selector-free) completeness for "
                  "HTTPUpgrader.Upgrade. The unchanged tree violated the property: F3 (asciiToInt let 0x3A-0x3F and overflow through: "
                  "'HTTP/1.;', 'HTTP/18446744073709551617.1' were upgraded) and F14 (HTTPUpgrader upgraded HTTP/2.0) - found by the oracle, "
                  "repaired by fix commits 42f051b and d6623bf.",
    "level_note": "Trusted: Lean kernel, Spec/Sha1.lean, the httphead and bufio models, harness. Chunk/buffer independence is C11.",
}

PROPS["C10"] = {
    "lean": ["WsVerif.Props.C10", "WsVerif.Props.C09Token", "WsVerif.Props.C10Digits", "WsVerif.Bridge.C10"],
    "rule": "ws.Dialer.Upgrade against a scripted server over a chunked transport (chunk sizes 0/1/7/16/33, buffer sizes 16/64/default): "
            "30 status-line forms (versions 1.0/1.2/1.10/2.0/01.1, status tokens '0101', '0:1', '10;', '1:1', ':1', beyond 2^64, '1e2', '+101', "
            "non-ASCII digits, 4- and 2-digit codes, missing reason/space); each of Upgrade/Connection/Sec-WebSocket-Accept absent / 8 value "
            "variants (case, blanks, token lists, wrong or truncated accept, accept for another key) / duplicated good-bad and bad-good; header "
            "names canonical/lower/upper, LF and CRLF, malformed lines, reordering, OnHeader rejecting; 3 subprotocol configurations x 10 values "
            "(+ two-header cases: requested-then-unrequested, unrequested-then-requested, two requested); 4 extension offers x 13 response "
            "values (outside the offer, changed parameters, quoted strings, malformed); 18 URL forms (ports, IPv6 literals, percent-encoded "
            "paths, queries, userinfo, empty path) x 7 request-side configurations (Host override, protocols, extensions with quoting, extra "
            "headers); trailing post-handshake bytes of 0..5000 bytes x chunkings that split exactly at / one past the head; responses cut at "
            "every offset (EOF and read error); random sampling (300 quick / 20000 thorough); ws.Dialer.Dial with a recording NetDial/TLSClient "
            "for 18 URLs (default ports, explicit ports, IPv6, other schemes, userinfo).",
    "exhaustive_families": [],
    "trusted_base": PROPS["C09"]["trusted_base"][:2] + [
        "Model/Dialer.lean mirrors dialer.go and httpWriteUpgradeRequest by hand; tied by exact correspondence (error identity, returned "
        "Handshake, every request byte, every byte readable afterwards, whether a buffer is returned) and by Bridge.C10 (header names, "
        "headerSeen bits, sizes, separators, GUID and the source-order list of conditions of Dialer.Upgrade, matchSelectedExtensions, "
        "httpParseResponseLine, hostport, httpWriteUpgradeRequest regenerated from the source)",
        "inputs of the model that come from outside gobwas/ws: the nonce drawn by math/rand (reported by the harness; the oracle checks it is "
        "24 base64 characters of 16 bytes and differs from the previous dial), net/url's RequestURI() and Host (reported; the oracle "
        "recomputes both from the raw URL for URLs in a plain subset)",
        "the independent oracle (Driver/C10.lean: judgeDial) reads request and response with its own line splitter and decides the request "
        "shape, acceptance, subprotocol membership, extension origin and parameters, and byte preservation without the model",
        "Proofs/Bufio.lean: readLine conserves bytes (kernel-checked) - used for `rest_preserved`",
    ],
    "assumptions": COMMON_ASSUME + [
        "left open by the oracle: URLs with a fragment or characters net/url escapes, a trailing '?', leading zeros in the HTTP version, a "
        "status line without the second space (RFC 7230 makes it mandatory; the code refuses it)",
        "TLS itself (crypto/tls) is outside: only the host name handed to TLSClient and the address dialed are observed",
        "Dial's timeout/cancellation behaviour is C20's",
    ],
    "level_text": "Kernel-checked for EVERY configuration, nonce and response (model of dialer.go): the request has the fixed shape and ends with "
                  "the blank line; success implies HTTP/1.x with x>=1, a status token that is literally '101' (three digits), every header line "
                  "acceptable, Upgrade / Connection / Sec-WebSocket-Accept all present with Accept = base64(SHA-1(nonce ++ GUID)), every "
                  "Sec-WebSocket-Protocol value one that was requested and non-empty, the returned subprotocol the last one sent, every "
                  "extension the server listed named in the offer and returned with the server's parameters; whatever the outcome the bytes "
                  "still readable through the buffer and then the connection are a suffix of what the server sent (nothing lost, duplicated or "
                  "reordered - from the kernel-checked byte conservation of readLine over bufio); the address dialed is the URL host, with the "
                  "default port appended iff it has none. Completeness is decided by the oracle on the grammar, not proved (PARTIAL). The "
                  "unchanged tree violated the property: F3 ('0:1' read as 101, repaired with C09), F17 (status '0101' accepted) and F18 (an "
                  "unrequested subprotocol accepted in a second header) - found by the oracle, repaired by fix commits 2acb7ea and d76573d.",
    "level_note": "Trusted: Lean kernel, Spec/Sha1.lean, the httphead and bufio models, net/url, math/rand, harness.",
}

PROPS["C11"] = {
    "lean": ["WsVerif.Props.C11", "WsVerif.Props.C11Flat", "WsVerif.Bridge.C11"],
    "rule": "(pair) ws.Dialer.Upgrade wired to ws.Upgrader.Upgrade in-process (the request the dialer writes is fed to the upgrader over a "
            "chunked reader, its output back to the dialer over another): 9 dialer configurations (no/one/three subprotocols, "
            "permessage-deflate offers with and without parameters, a second extension with a quoted value, extra headers incl. a 200-byte "
            "line, Host override) x 12 upgrader configurations (selectors matching none/first/later protocol, three wsflate negotiators, two "
            "deprecated extension selectors, extra headers, OnBeforeUpgrade header, rejecting OnHost) x buffer sizes default/16/1-300 x "
            "chunk sizes 0/1/7/16/64. (chup/chdl) 8 requests x 3 upgrader configurations and 7 responses x 2 dialer configurations, each run "
            "under 6 buffer sizes x 12 chunkings (1 byte ... whole message), with EOF and read-error endings, incl. lines longer than the "
            "buffer and cut messages: the number of distinct outcomes must be 1. (dbgup/dbgdl) wsutil.DebugUpgrader / DebugDialer against the "
            "plain types on the same inputs: same outcome and post-handshake bytes, each callback called once, reported request/response = "
            "bytes exchanged; a failing dial.",
    "exhaustive_families": [],
    "trusted_base": PROPS["C09"]["trusted_base"][:2] + [
        "Model/Upgrader.lean, Model/Dialer.lean, Model/Http.lean (bufio.Reader as far as readLine uses it) as in C09/C10; the composition "
        "dialer -> upgrader -> dialer is computed in the model and compared field by field with the real pair",
        "Bridge.C11: readLine's, DebugDialer's, headEndIndex's, prefetchResponseReader's and DebugUpgrader's conditions and the pooled "
        "buffer acquisition of both handshakes regenerated from the source",
        "the debugging wrappers themselves are NOT modelled (they sit on net/http's ReadRequest/ReadResponse): they are decided by the "
        "differential oracle alone (plain vs wrapped run on identical inputs) - stated as such, no theorem covers them",
    ],
    "assumptions": COMMON_ASSUME + [
        "the pair is run sequentially (request fully written, then upgrader, then response read): the handshake is one request and one "
        "response, so no interleaving is lost",
        "bytes a client sends before it has the response are outside (Upgrader drops what its pooled reader buffered, with and without the "
        "wrapper)",
    ],
    "level_text": "Kernel-checked: for EVERY chunking of the transport and every buffer size, whatever Upgrader.Upgrade / Dialer.Upgrade leave "
                  "readable is a suffix of what the peer sent (readLine conserves bytes across ErrBufferFull reassembly - `readLine_all`, "
                  "`upgrade_consumes_prefix`, C10.rest_preserved); Sec-WebSocket-Accept always has the 28 characters the client insists on; "
                  "for every server configuration without objecting callbacks and every client configuration the dialer's header lines pass "
                  "the upgrader, the key kept is the dialer's nonce, the 101 is chosen and its three lines pass the dialer (`pair_lines`, "
                  "parsed-line level). Chunking independence is a theorem (Props/C11Flat): readLine over bufio returns the bytes up to the first LF "
                  "of the FLAT stream whatever the chunking, the buffer size and whether the last bytes arrive with the end of the stream "
                  "(`readLine_spec`, for transports that never return (0, nil)); hence handshake, error, every byte written and what stays "
                  "readable are functions of the flat request / response bytes (`upgrade_flat`, `dialerUpgrade_flat`). PARTIAL: agreement of "
                  "the two peers with subprotocols/extensions in play is decided by the correspondence run (model = implementation on the "
                  "whole pair), not by a theorem. The debugging wrappers are decided by the differential oracle "
                  "only. The unchanged tree violated the property: F15 (DebugDialer with OnResponse panics when the dial fails) and F19 "
                  "(for a response with bare-LF line ends, which Dialer accepts, DebugDialer reported 'HTT' as the response and replayed the "
                  "head as post-handshake bytes) - repaired by fix commit eb9e34f.",
    "level_note": "Trusted: Lean kernel, the httphead/bufio models, net/http inside the wrappers, harness.",
}

PROPS["C12"] = {
    "lean": ["WsVerif.Props.C12", "WsVerif.Bridge.C12"],
    "rule": "(fw) wsflate.Writer around a SCRIPTED compressor that forwards each Write in chosen pieces and ends Flush/Close with chosen "
            "bytes: 8 data sizes (0..40) x 10 ways to cut them around the 4-byte boundary, 10 flush tails (none, 1-5 bytes, wrong, shifted), "
            "Close with and without an io.Closer, Reset, destination failing at write 0..3, random scripts (150 quick / 5000 thorough); "
            "(sr) wsflate.Reader around a pass-through decompressor, sources of 0/1/5/30 bytes x chunk sizes x ByteReader or plain x 6 "
            "read-size patterns (1 byte at a time ... larger than everything, zero-length reads), EOF/err/data-with-EOF endings; (fl) real "
            "compress/flate at levels -2,-1,0,1,5,9 through wsflate.Writer for empty, 1-byte, tiny, highly compressible, text, random 300 B "
            "and 5 kB, and > 32 KiB payloads (100 kB in thorough) x write/flush/close scripts (single write, split writes, flush in the "
            "middle, double flush, close without flush, flush then close), read back through wsflate.Reader at several chunkings and with "
            "ByteReader/plain sources; (ind) an independent encoder written in the harness (stored blocks of 65535 and 7 bytes, fixed "
            "Huffman literals, fixed Huffman with distance-1 matches; sync-flushed, tail removed) through wsflate.Reader; (cf) "
            "CompressFrame -> DecompressFrame for final/non-final, rsv 0/1/2/4, text/binary, masked; (badc) Helper.Compress with "
            "compressors that end Flush with nothing / a wrong tail / a short tail / the right tail.",
    "exhaustive_families": [],
    "trusted_base": [
        "Spec/Inflate.lean: a raw-DEFLATE decoder written from RFC 1951 (stored, fixed and dynamic Huffman); it is the independent decoder "
        "of the statement and, composed with the proved suffixedReader model, the contract assumed of flate.NewReader; unverified, "
        "validated by agreeing with compress/flate on every case",
        "compress/flate (Go stdlib) is OUTSIDE: the model takes the compressor as the sequence of chunks it writes, the decompressor as "
        "a function of the bytes it is given",
        "Model/Flate.lean mirrors cbuf.go, writer.go and reader.go by hand; tied by exact correspondence through the scripted compressor "
        "and the pass-through decompressor (every destination byte, number of destination writes, every error) and by Bridge.C12",
        "the harness's independent encoder (c12.go: encStored, encFixed) - checked by the Lean inflate before it is used as a witness",
    ],
    "assumptions": COMMON_ASSUME + ["the destination of the scripted runs fails only where the script says",
                                    "the decompression reader is judged on complete messages (cut compressed input is C16's)"],
    "level_text": "Kernel-checked for EVERY sequence of compressor writes and EVERY pattern of reads: cbuf passes everything but the last "
                  "min(4,total) bytes to the destination unchanged and in order; after a Flush/Close that reports success, destination ++ "
                  "00 00 ff ff = everything the compressor produced since the last Reset, so appending the RFC 7692 tail restores the "
                  "compressor's stream; a compressor whose output does not end in 00 00 ff ff makes Flush/Close fail; writer errors are "
                  "sticky; the suffixed reader delivers source ++ 00 00 ff ff 01 00 00 ff ff once and in order whatever the read sizes, "
                  "for ByteReader and plain sources alike. That DEFLATE itself round-trips (the stdlib's part) is decided per case by the "
                  "independent decoder and encoder, not proved (PARTIAL): library output + tail inflates to the message with the Lean "
                  "decoder; the reader recovers the message from the library's and from the independent encoder's output.",
    "level_note": "Trusted: Lean kernel, Spec/Inflate.lean, compress/flate as a black box, harness.",
}

PROPS["C18"] = {
    "lean": ["WsVerif.Props.C18", "WsVerif.Props.C06Sessions", "WsVerif.Props.C04ReadDataSkip", "WsVerif.Props.C08ReadData", "WsVerif.Props.C14", "WsVerif.Bridge.C18", "WsVerif.Bridge.Bodies", "WsVerif.Props.C08ReadDataHistory", "WsVerif.Props.C08ReadDataFragText"],
    "rule": "Differential: an instance is driven through a history, reset, driven through an `after` sequence; a freshly constructed instance "
            "with the same configuration is driven through the same `after` sequence; both observations (every result, every destination "
            "write) must be equal. wsutil.Writer.Reset: 11 histories (unflushed data, several fragments, flushed message, Grow, extension "
            "set, DisableFlush, write-through; destination failing at write 0 or 1) x 6 after-sequences x both sides x 3 buffer "
            "configurations, reset to the same or the other side; Writer.ResetOp likewise against a fresh writer carrying the history's "
            "extension and flush mode; PutWriter/GetWriter for 5 sizes; UTF8Reader.Reset: 8 histories (complete, mid-sequence, invalid) x 7 "
            "after-inputs incl. continuation bytes; CipherReader/CipherWriter.Reset with new masks after odd-length histories; wsflate.Writer "
            "with a scripted compressor after clean / unflushed / bad-tail / destination-error histories; compress/flate through the "
            "WriteResetter and ReadResetter paths (levels 1 and 9; corrupt history for the reader).",
    "exhaustive_families": [],
    "trusted_base": [
        "Models of wsutil.Writer (Model/Writer.lean), wsflate Writer/Reader shells (Model/Flate.lean), UTF8Reader, CipherReader/Writer, "
        "Extension as in C06/C12/C07/C02/C14; the reset run and the fresh run are both computed in the model and compared with the "
        "implementation item by item",
        "Bridge.C18: the assignments of every Reset/reset/ResetOp method and the field lists of every resettable struct regenerated from "
        "the source (a field a Reset forgets shows up as a changed list)",
        "compress/flate's own Reset is outside (differential only)",
    ],
    "assumptions": COMMON_ASSUME + [
        "'same configuration' for wsutil.Writer = same payload capacity (Size()), side and opcode; buffer growth survives a Reset",
        "ResetOp after a destination error is left open (the destination is kept, the statement only speaks of fragments, extensions and "
        "flush mode)",
        "the message reader's per-message reset is exercised by C04/C05 stream cases (message after message against the stream spec)",
    ],
    "level_text": "Kernel-checked for EVERY prior state (hence every history): wsutil.Writer.Reset equals NewWriterBuffer on the same raw "
                  "buffer - buffered data, dirty flag, fragment counter, extension, DisableFlush, side and the sticky destination error all "
                  "gone, only buffer growth survives; ResetOp drops fragments and keeps side, buffer, extension and flush mode; GetWriter is "
                  "a constructor whatever was Put; wsflate.Writer.Reset, the suffixed reader's reset, UTF8Reader.Reset, "
                  "CipherReader/Writer.Reset and Extension.Reset equal the freshly constructed values. The unchanged tree violated the "
                  "property: F4 (Writer.Reset kept the sticky write error: a reused writer never wrote again) and F11 (UTF8Reader.Reset "
                  "kept the accepted counter) - found by the differential oracle, repaired by fix commits 61d761f and ee45f83. Readers over histories: after ANY sequence of pings, pongs and discarded (unwanted) messages the reader the ReadData loop holds is idle again with a fresh validator, and the next message is read exactly as by a new reader (C04ReadDataSkip.loop_skip, C08ReadData.loop_history / readData_text_after_history).",
    "level_note": "Trusted: Lean kernel, the models named above, harness.",
}

PROPS["C15"] = {
    "lean": ["WsVerif.Props.C15"],
    "rule": "Mutation from valid seeds (bit flips, interesting bytes, truncation, duplication, insertion, splicing, 8-byte 0xff/0x7f/0x80 "
            "runs; 400 mutants per entry point quick, 20000 thorough) at 14 entry points: ws.ReadHeader, ws.ReadFrame, wsutil.Reader "
            "(server/client/extended, UTF-8 check on, draining every frame), wsutil.ReadMessage, ReadClientData/ReadServerData/"
            "ReadClientText, ControlFrameHandler on both sides, ws.Upgrader (3 configurations incl. 16-byte buffer, selectors, wsflate "
            "negotiation), ws.HTTPUpgrader, ws.Dialer (2 configurations), wsflate.DecompressFrame, Parameters.Parse, Extension.Negotiate, "
            "subprotocol and extension header values through the upgrader; the announced lengths 2^31, 2^31+1, 2^32, 2^40, 2^62, 2^63-1, "
            "2^63, 2^64-1 (masked and not) at ReadHeader, wsutil.Reader, the control handler and the MaxFrameSize reader, and the ones "
            "make() refuses at the allocating helpers; MaxFrameSize 0/1/125/126/1000/65535/65536 x payloads 0..70000. Each call runs "
            "under recover() with a 5 s watchdog and an allocation meter (TotalAlloc delta must stay below 1 MiB + 64 x input).",
    "exhaustive_families": [],
    "trusted_base": [
        "all models as in C01-C14; here the model's prediction is the same for every input - the call returns - and the oracle judges the "
        "observation (PANIC / HANG / LARGE allocation / payload bytes pulled before a MaxFrameSize refusal)",
        "runtime.MemStats.TotalAlloc as the allocation meter; lengths that make() accepts but the sandbox could not back (2^31..2^47 at "
        "ReadFrame/ReadMessage) are NOT executed - they would commit that memory; the model marks them as outside",
        "mutation is not coverage-guided (no instrumentation is available offline): it supports the search for a failing input, the "
        "claims rest on the theorems",
    ],
    "assumptions": COMMON_ASSUME + ["'hang' = no return within 5 s on inputs of at most 70 kB"],
    "level_text": "Kernel-checked: every model function is total (the kernel accepted the definitions; loops carry fuel), Go panics are "
                  "explicit model outcomes; ws.ReadHeader asks for at most 2 + 12 bytes whatever the announced length and never reaches one "
                  "of its index/slice panics, for any input and chunking; ReadFrame does not panic for announced lengths make() accepts "
                  "(PARTIAL - the full statement is false: F5); the payload cipher is total; with MaxFrameSize set an oversized frame is "
                  "refused with the source exactly where its header ended; every item the header-value lexer returns consumes at least one "
                  "byte (no scan loops without consuming input). KNOWN FINDING F5 (not repaired): ws.ReadFrame and wsutil.ReadMessage panic "
                  "in make() on a header announcing 2^62..2^63-1 bytes - proved on the model (F5_readFrame_makeslice), replayed on the code.",
    "level_note": "Trusted: Lean kernel, models, harness watchdog and allocation meter. Panics elsewhere (handshake, wsflate, negotiation) "
                  "are covered by the per-property models (explicit PANIC outcomes compared on every case) and by the mutation run.",
}

PROPS["C20"] = {
    "realtime_families": ["dialc"],
    "lean": ["WsVerif.Props.C20", "WsVerif.Bridge.C20"],
    "rule": "ws.Dialer.Dial against a scripted, deadline-honouring net.Conn and NetDial, in real time (unit 40 ms): background and "
            "non-background contexts; no context end / cancel at 1,3,5 / context deadline at 3,5 units; Dialer.Timeout none, 3, 7 units "
            "(shorter and longer than the context's own end); NetDial returning at once, after 2 units, or never (honouring its context); "
            "the peer answering at once, after 2 units, or never; the handshake succeeding or failing with a non-timeout error - every "
            "combination whose decisive instants do not coincide, plus 12 runs of the unforced race (handshake finishing as the context "
            "ends, either outcome legal). Observed: error class, whether NetDial connected, Close called, the last SetDeadline (never / zero "
            "/ past / future), return later than the limit + 1.5 units, forced termination after 14 units, a goroutine still inside "
            "setupContextDeadliner, any conn method called within a unit after Dial returned.",
    "exhaustive_families": ["timeline grid (thorough: all; quick: failing-handshake variants halved)"],
    "trusted_base": [
        "Model/Dial.lean: a discrete-time model of Dial's control flow (dial-phase context, background fast path, watcher, done(&err), "
        "deferred Close) written by hand; the Go scheduler, timers and net deadlines are abstracted to 'the earlier instant wins' and one "
        "explicit scheduling input for the tie; tied by correspondence on the timeline grid and by Bridge.C20 (the source-order lists of "
        "Dial's and setupContextDeadliner's conditions, calls, go/select arms and channel sends regenerated from the source)",
        "real time: instants are 40 ms apart and lateness is judged with a 60 ms margin; a loaded machine can blur that - the cases whose "
        "instants coincide are excluded from the exact comparison",
        "crypto/tls and the real net package are outside",
    ],
    "assumptions": COMMON_ASSUME + [
        "the connection honours deadlines and Close unblocks I/O (the scripted conn does)",
        "'no limit at all and a silent peer' is not run: Dial is entitled to wait for ever",
        "an I/O error that is not a timeout is reported as it is even if the context has ended by then (the statement's 'the error is the "
        "context's error' is read for I/O interrupted by the context, as the code comments say)",
    ],
    "level_text": "Kernel-checked on the model, for EVERY combination of context kind, Timeout, end instant, NetDial and handshake durations "
                  "(incl. a silent peer), handshake failure and the watcher's scheduling choice: a nil error comes with a connection not "
                  "closed and deadlines cleared or never set - never poisoned; a non-nil error after NetDial succeeded comes with the "
                  "connection closed; whenever the context ends or a Timeout is set, Dial returns by the earlier of the two, also with a "
                  "silent peer; if that instant precedes the end of the handshake I/O the error is that context's error (canceled / deadline "
                  "exceeded); the watcher has replied whenever Dial returns. The model is a hand abstraction of the runtime (PARTIAL: the "
                  "scheduler is not modelled beyond the one tie). The unchanged tree violated the property: F13 (with any non-background "
                  "context Dialer.Timeout was not applied to the handshake: a silent peer blocked Dial beyond Timeout) - found by the "
                  "oracle (late / hung), repaired by fix commit 26ae365.",
    "level_note": "Trusted: Lean kernel, Model/Dial.lean as an abstraction of goroutines and timers, harness timing.",
}

PROPS["C17"] = {
    "lean": ["WsVerif.Props.C17", "WsVerif.Bridge.C17"],
    "rule": "Snapshot-then-churn: the value the library returned is deep-copied at once; then three more operations of the same kind with "
            "different contents run through the same pools and every pooled bufio.Reader / byte slice of the usual size classes "
            "(16..4096) is taken, overwritten with 0xAA and returned; then the value is read again. Upgrader.Upgrade and "
            "HTTPUpgrader.Upgrade: 7 configurations (subprotocol selector, two wsflate negotiators, deprecated extension selector with "
            "quoted parameters, combinations, 64-byte buffer) x 3 requests x 2 churn requests; Dialer.Upgrade: 3 configurations x 3 "
            "responses (parameters changed by the server, none, two extensions), also checking that Dialer.Extensions itself is unchanged; "
            "ControlHandler close reasons of 0/1/10/60/123 bytes on both sides; ReadMessage payloads of 0..70000 bytes, single and "
            "fragmented with an interleaved ping, both sides; write side: WriteMessage, WriteThrough, a Write larger than the buffer, a "
            "buffered Write whose slice the caller scribbles before Flush, CipherWriter.Write, MaskFrame, MaskFrameWith, UnmaskFrame for "
            "sizes 0..5000 on both sides: the caller's slice must be bit-for-bit intact and the destination must carry the bytes as they "
            "were when written.",
    "exhaustive_families": [],
    "trusted_base": [
        "Props/C17.lean: a small heap model (owned values vs views into library buffers) - aliasing cannot be expressed in the value-level "
        "models of the other properties, where a returned value is a value",
        "Bridge.C17 (regenerated on every run): the source-order list of every copying / viewing / in-place conversion, allocation, pool "
        "get/put and result site in btsSelectProtocol, strSelectProtocol, btsSelectExtensions, negotiateExtensions, "
        "matchSelectedExtensions, ParseCloseFrameData(Unsafe), HTTPUpgrader.Upgrade, HandleClose, ReadMessage, Writer.Write, "
        "WriteThrough, writeFrame, CipherWriter.Write and the (Un)MaskFrame helpers; every call of btsToString/strToBytes; every pool "
        "site; and the decided obligation that no result site uses a viewing conversion",
        "the fact extractor does not do data-flow analysis: a view that reaches a result through a new intermediate variable is caught "
        "by the changed list and by the churn run, not by `no_view_in_results`",
        "github.com/gobwas/pool (sync.Pool based): reuse is likely, not certain; the scribbling takes and returns several buffers per "
        "class to make it so",
    ],
    "assumptions": COMMON_ASSUME + ["ProtocolCustom / ExtensionCustom callbacks receive views by contract and are outside ('library-owned "
                                    "selection paths')", "ParseCloseFrameDataUnsafe and the *InPlace helpers are documented as aliasing / mutating"],
    "level_text": "Kernel-checked on the heap model: a value produced by a copying conversion reads the same under EVERY later state of every "
                  "library buffer, a view does not (witness); a list of owned values is stable as a whole. Kernel-checked on the "
                  "regenerated facts: no result site of the selection paths, the close handler, the message reader or the copying helpers is "
                  "built from btsToString / strToBytes / an Unsafe variant, and the complete lists of conversions, unsafe casts and pool "
                  "sites are the reviewed ones. PARTIAL by nature: the link from 'the source uses string(selected)' to the heap model is the "
                  "extractor's reading of the syntax, not a semantics of Go; the churn run is what exhibits a failing input.",
    "level_note": "Trusted: Lean kernel, the extractor (syntactic), harness pool scribbling.",
}


PROPS["C19"] = {
    "lean": ["WsVerif.Props.C19", "WsVerif.Bridge.C19", "WsVerif.Bridge.Bodies"],
    "race_binary": True,
    "rule": "N sessions (2, 8, 16; thorough: up to 64) on their own goroutines and in-memory connections, GOMAXPROCS 1/4/16, in a binary "
            "built with -race (harness/cmd/wsrace): zero-copy Upgrader with Protocol/Negotiate/Extension callbacks and ws.Upgrade "
            "(DefaultUpgrader), ws.UpgradeHTTP (DefaultHTTPUpgrader) and HTTPUpgrader, Dialer.Upgrade from ONE shared Dialer value with "
            "protocols and parameterised extensions answered differently per session, message exchange in both directions (WriteClient/"
            "ServerMessage, pooled GetWriter/PutWriter across its size classes, default writers, precompiled frames, pings answered by "
            "ReadClientData/ReadServerData, close with reason), wsflate frame helpers (DefaultHelper) and the compressed writer/reader "
            "stack; payload sizes 0..70000 across the byte pool's classes. Every session is deterministic; it runs alone first, then all "
            "run together (1-3 rounds); each session's transcript must equal its solo transcript (masks/nonces canonicalised), every "
            "session checks results against what it asked for and re-reads kept handshake data and payloads at its end; a race-detector "
            "report is a violation whose replay names the functions of the first report.",
    "exhaustive_families": [],
    "trusted_base": [
        "Model/Pools.lean: sessions as programs over get/fill/read/put on a shared free list with stale buffer contents; a hand "
        "abstraction of gobwas/pool (pbytes, pbufio) and wsutil.writers - the dependency is modelled, not verified",
        "the step granularity: one pool action is atomic in the model; data races inside an action, sync.Pool, the garbage collector, "
        "goroutine preemption and math/rand's lock are NOT in the model (named runtime residue) - they are only observed, by the race detector run",
        "Bridge.C19 (regenerated facts): every pool Get has a deferred Put in the same function; no function but init writes, appends to, "
        "copies into or takes the address of a package-level variable; methods of Dialer/Upgrader/HTTPUpgrader/Helper never write through "
        "their receiver and the defaults are used through value receivers. The 'overwritten before read' half of the discipline is the "
        "contract of pbufio.Get*(Reset) and of copy(payload, p) and is not extracted",
        "Go's race detector (happens-before, finds only races that occur in the executed interleavings)",
    ],
    "assumptions": COMMON_ASSUME + [
        "sessions follow the library's get/put discipline (Disc): touch a buffer only between their own Get and Put, overwrite before read",
        "callbacks given to the library by the sessions are themselves free of shared state",
    ],
    "level_text": "Kernel-checked on the pool model, for ANY number of sessions, ANY programs obeying the get/put discipline, ANY initial pool "
                  "(stale contents included) and ANY schedule: no buffer is ever held by two sessions or while in the pool (ownership_inv), and "
                  "what each session observes is what its own program computes with no heap, pool or neighbour at all (noninterference), hence "
                  "equal to its run alone from an empty pool (same_as_alone); a program outside the discipline provably does observe a "
                  "neighbour's bytes (leaky_observes_others). PARTIAL: interleaving is at pool-action granularity; the Go memory model, "
                  "sync.Pool and the scheduler are observed by a -race harness (solo-vs-together transcripts of real sessions), not proved. "
                  "The syntactic discipline is re-extracted from the source on every run (Bridge.C19).",
    "level_note": "Trusted: Lean kernel, Model/Pools.lean as an abstraction of the pools, wsfacts extraction, the race detector; data races are "
                  "observed, not proved absent.",
    "technique": "Lean 4 invariant proof (ownership + non-interference for all schedules) over an executable pool/session model; discipline "
                 "facts regenerated from the Go source (wsfacts) and decided in Lean; correspondence by real concurrent sessions under the "
                 "Go race detector compared with their solo runs",
}

NOT_APPLICABLE = {}
