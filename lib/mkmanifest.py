#!/usr/bin/env python3
"""Regenerate MANIFEST.json from lib/props.py (claimed checks) and properties.jsonl."""
import json, os, sys
ROOT = os.path.dirname(os.path.dirname(os.path.abspath(__file__)))
sys.path.insert(0, os.path.join(ROOT, "lib"))
from props import PROPS, NOT_APPLICABLE

props = [json.loads(l) for l in open(os.path.join(ROOT, "properties.jsonl"))]
checks = []
for p in props:
    pid = p["id"]
    if pid not in PROPS:
        continue
    c = PROPS[pid]
    checks.append({
        "property_id": pid,
        "quick_cmd": f"./check {pid} quick",
        "thorough_cmd": f"./check {pid} thorough",
        "evidence_file": f"/verif/evidence/{pid}.json",
        "replay_cmd_template": f"./check {pid} --replay {{path}}",
        "engine": "lean4-proof+correspondence",
        "level_claimed": {"category": "proof", "text": c["level_text"], "design_ref": c.get("design_ref", "DESIGN.md §6." + pid)},
        "level_note": c["level_note"],
        "technique": c.get("technique", "Lean 4 theorems over an executable model; model tied to source by regenerated definitions (wsfacts) and differential correspondence (wsdiff/driver)"),
    })
m = {
    "version": 1,
    "setup_cmd": "./setup.sh",
    "hooks": {"guard": "verif", "enable": "go build -tags verif (the harness module replaces github.com/gobwas/ws => /repo; no hook files are needed: every modelled function is reachable through the public API)",
              "baseline_off_cmd": "cd /repo && GOFLAGS=-mod=mod GOPROXY=off go test -vet=off -count=1 ./...",
              "source_commits": [], "add_only": True},
    "engines": [{"name": "lean4-proof+correspondence", "path": "/verif/check",
                 "serves_properties": [c["property_id"] for c in checks],
                 "kind_free_text": "Lean 4.33 kernel-checked theorems about executable models (lean/WsVerif), regenerated definitions from Go source (harness/cmd/wsfacts), differential correspondence harness in Go (harness/cmd/wsdiff) against a compiled Lean driver (lean/Driver)"}],
    "checks": checks,
    "notes": "Machine-checked proof in Lean 4; see DESIGN.md. `./check <id> quick|thorough`.",
    "not_applicable": [{"property_id": p["id"], "reason": NOT_APPLICABLE.get(p["id"], "check not built yet (work in progress; DESIGN.md §6 describes the plan)")}
                       for p in props if p["id"] not in PROPS],
}
json.dump(m, open(os.path.join(ROOT, "MANIFEST.json"), "w"), indent=1)
print("checks:", [c["property_id"] for c in checks])
