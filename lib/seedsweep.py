#!/usr/bin/env python3
"""
seedsweep.py [-j N] [-t quick|thorough] [-p C01,C02|own] [ids...]

Development aid (not a registered check): run the checks against the seeded changes in /verif/seeded.
For each seeded change it makes a scratch copy of /verif (with its build output) and a scratch git
worktree of /repo with the patch applied, both under /tmp/sw/<id>/, points the copy's harness at that
worktree (WS_REPO + the go.mod replace line), runs `./check <prop> <tier>` there and removes everything
again.  /repo and /verif themselves are not touched, so sweeps can run while /verif is being edited.
The result table goes to stdout and to /tmp/sw/results.json.

  -p own     (default) each change against the check of the property it was written for
  -p all     each change against every claimed check
  -p C04,C18 each change against these checks
"""
import sys, os, json, subprocess, shutil, re, argparse
from concurrent.futures import ThreadPoolExecutor

VERIF = os.path.dirname(os.path.dirname(os.path.abspath(__file__)))
SW = "/tmp/sw"


def sh(cmd, cwd=None, env=None, timeout=7200):
    p = subprocess.run(cmd, cwd=cwd, env=env, shell=isinstance(cmd, str), text=True,
                       stdout=subprocess.PIPE, stderr=subprocess.STDOUT, timeout=timeout)
    return p.returncode, p.stdout


def one(sid, props, tier):
    base = os.path.join(SW, sid)
    shutil.rmtree(base, ignore_errors=True)
    os.makedirs(base)
    repo, verif = os.path.join(base, "repo"), os.path.join(base, "verif")
    res = {"id": sid, "checks": {}}
    try:
        rc, o = sh(["git", "-C", "/repo", "worktree", "add", "--detach", repo, "HEAD"])
        if rc != 0:
            res["error"] = "worktree: " + o[-300:]; return res
        rc, o = sh(["git", "apply", os.path.join(VERIF, "seeded", sid, "patch.diff")], cwd=repo)
        if rc != 0:
            res["error"] = "apply: " + o[-300:]; return res
        sh(["rsync", "-a", "--exclude", ".git", "--exclude", "replays", "--exclude", "seeded",
            VERIF + "/", verif + "/"])
        gm = os.path.join(verif, "harness", "go.mod")
        s = open(gm).read().replace("=> /repo", "=> " + repo)
        open(gm, "w").write(s)
        env = dict(os.environ, WS_REPO=repo)
        for p in props:
            rc, o = sh(["./check", p, tier], cwd=verif, env=env)
            lines = [l for l in o.splitlines() if re.match(r"(VIOLATION|KNOWN-FINDING|check )", l)]
            kind = "MISSED"
            if any(l.startswith("VIOLATION") for l in lines):
                kind = "nofail" if any("no-failing-input-found" in l for l in lines) else "DETECTED"
            if rc not in (0, 1):
                kind = "ERROR rc=%d" % rc
            replay = None
            m = re.search(r"replay=(\S+)", o)
            if m and os.path.exists(m.group(1)):
                try:
                    replay = json.load(open(m.group(1)))
                except Exception:
                    pass
            res["checks"][p] = {"verdict": kind, "rc": rc, "lines": [l[:400] for l in lines],
                                "replay_head": json.dumps(replay)[:1500] if replay else None,
                                "tail": o[-800:] if kind.startswith("ERROR") else None}
    finally:
        sh(["git", "-C", "/repo", "worktree", "remove", "--force", repo])
        shutil.rmtree(base, ignore_errors=True)
    return res


def main():
    ap = argparse.ArgumentParser()
    ap.add_argument("-j", type=int, default=6)
    ap.add_argument("-t", default="quick")
    ap.add_argument("-p", default="own")
    ap.add_argument("ids", nargs="*")
    a = ap.parse_args()
    ids = a.ids or sorted(os.listdir(os.path.join(VERIF, "seeded")))
    sys.path.insert(0, os.path.join(VERIF, "lib"))
    from props import PROPS
    jobs = []
    for sid in ids:
        meta = json.load(open(os.path.join(VERIF, "seeded", sid, "meta.json")))
        if a.p == "own":
            props = [meta["property"]] if meta["property"] in PROPS else []
        elif a.p == "all":
            props = sorted(PROPS)
        else:
            props = a.p.split(",")
        jobs.append((sid, props))
    os.makedirs(SW, exist_ok=True)
    results = []
    with ThreadPoolExecutor(a.j) as ex:
        for r in ex.map(lambda j: one(j[0], j[1], a.t), jobs):
            results.append(r)
            for p, c in r["checks"].items():
                print(f"{r['id']:8s} {p} {c['verdict']:9s} " + " | ".join(l[:160] for l in c["lines"] if not l.startswith("check ")), flush=True)
            if r.get("error"):
                print(r["id"], "ERROR", r["error"], flush=True)
    json.dump(results, open(os.path.join(SW, "results.json"), "w"), indent=1)
    sh(["git", "-C", "/repo", "worktree", "prune"])


if __name__ == "__main__":
    main()
