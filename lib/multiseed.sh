#!/bin/sh
# unchanged-tree sweep over several seeds: every claimed check, quick tier (or $2), seeds $1 (default "1 2 3 4 5")
# prints only the lines that need attention (VIOLATION / non-zero exits) and a summary
cd "$(dirname "$0")/.."
SEEDS="${1:-1 2 3 4 5}"; TIER="${2:-quick}"
bad=0
for s in $SEEDS; do
  for id in $(python3 -c "import sys; sys.path.insert(0,'lib'); from props import PROPS; print(' '.join(sorted(PROPS)))"); do
    out=$(VERIF_SEED=$s ./check $id $TIER 2>&1); rc=$?
    if [ $rc -ne 0 ]; then bad=$((bad+1)); echo "seed=$s $id rc=$rc"; echo "$out" | grep -E "^(VIOLATION|check )" | cut -c1-300; fi
  done
  echo "seed $s done"
done
echo "multiseed: $bad alarms"
