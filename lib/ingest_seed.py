#!/usr/bin/env python3
"""
ingest_seed.py <id> <outdir> <round-name> <change> <needs> — take one sub-agent's change (patch.diff, demo_test.go,
README.md in <outdir>) into seeded/<id>/, confirm it with lib/confirm_seed.py in a scratch worktree under /tmp
(created here, removed afterwards) and write meta.json.  Developer aid; not used by any check.
"""
import sys, os, json, shutil, subprocess, re
ROOT = os.path.dirname(os.path.dirname(os.path.abspath(__file__)))
sid, out, rnd, change, needs = sys.argv[1:6]
dst = os.path.join(ROOT, "seeded", sid)
os.makedirs(dst, exist_ok=True)
for f in ("patch.diff", "demo_test.go", "README.md"):
    shutil.copyfile(os.path.join(out, f), os.path.join(dst, f))
readme = open(os.path.join(dst, "README.md")).read()
race = bool(re.search(r"-race", readme)) and bool(re.search(r"(needs|requires?|must be run with|only .* under) .*race|race detector", readme, re.I))
wt = f"/tmp/seedconfirm/{sid}"
os.makedirs("/tmp/seedconfirm", exist_ok=True)
subprocess.run(["git", "-C", "/repo", "worktree", "add", "--detach", wt, "HEAD"], check=True,
               stdout=subprocess.DEVNULL, stderr=subprocess.DEVNULL)
try:
    res = None
    for mode in ([], ["race"]) if not race else (["race"],):
        p = subprocess.run([sys.executable, os.path.join(ROOT, "lib", "confirm_seed.py"), dst, wt] + mode,
                           stdout=subprocess.PIPE, text=True)
        res = json.loads(p.stdout.strip().splitlines()[-1])
        if res["confirmed"]:
            break
finally:
    subprocess.run(["git", "-C", "/repo", "worktree", "remove", "--force", wt], stdout=subprocess.DEVNULL, stderr=subprocess.DEVNULL)
base = subprocess.run(["git", "-C", "/repo", "rev-parse", "--short", "HEAD"], stdout=subprocess.PIPE, text=True).stdout.strip()
meta = {
    "id": sid, "property": sid.split("-")[0], "change": change, "needs_to_manifest": needs,
    "author": f"independent sub-agent ({rnd} round) given only the property text, the list of earlier changes to avoid, and a scratch worktree",
    "base_commit": base,
    "demo": {"file": "demo_test.go", "copy_into": res["demo_pkg"], "tests": res["demo_tests"],
             "needs_race_detector": res["demo_needs_race_detector"]},
    "confirmed_by": "lib/confirm_seed.py in a scratch worktree under /tmp (removed afterwards)",
    "confirmation": {k: res.get(k) for k in ("demo_clean_pass", "applies", "compiles", "suite_pass_with_patch",
                                               "demo_fails_with_patch", "confirmed", "diffstat")},
    "ran": ["go test -vet=off -count=1 -run <demo tests> ./<pkg>   (clean tree: pass)",
            "git apply patch.diff; go build ./...; go test -vet=off -count=1 ./...   (suite: pass)",
            "go test -vet=off -count=1 -run <demo tests> ./<pkg>   (with patch: fail)"],
}
json.dump(meta, open(os.path.join(dst, "meta.json"), "w"), indent=1)
print(sid, "confirmed" if res["confirmed"] else "NOT CONFIRMED: " + json.dumps(res)[:600])
