#!/bin/sh
# MANIFEST.setup_cmd: build everything offline from files on disk.
set -e
cd "$(dirname "$0")"
exec python3 ./check --setup
